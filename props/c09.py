"""C09 — facility ownership follows the configured origin.

ShellSem executes the generated constructor (member-init list in clang's initialisation order),
FacilitiesCheck and Locator() with the presence of dispatcher / runtime / another service in the
user's locator as symbolic Booleans: construction must throw exactly for the forbidden
combinations, and otherwise the identities of dispatcher, runtime, locator handed to the component
and the contents of both locators are checked on the machine's object graph.
"""
from vf import realcode  # noqa: F401
from vf import family as fam
from props import shellsem_common as ss

PROPERTY = 'C09'
LEVEL = ss.LEVEL
FUNCTIONS = ['generated FacilitiesCheck', 'generated constructor (facility part of the member-init list)', 'generated Locator()', 'processing.create_facilities', 'processing.create_constructor', 'processing.create_facilities_check_fn', 'common.Facilities.member_variables']
ASSUMPTIONS = [
    'program family: %d models x valid port configurations x facility origin x support namespace prefix = %d '
    'generated programs (vf/family.py); the quantifier over models is covered by this family only' % (len(fam.MODELS), len(fam.VALID)),
    'trusted base: clang-14 as front-end (typed AST), the ShellSem reading of C++ (vf/shellsem/machine.py) with '
    'library/runtime calls as intrinsics, the mock Dezyne runtime (cpp/mock_dzn) and the mock model header; the '
    'machine is validated on every run against the g++-compiled program (same scenario, traces must agree)',
    'scratch copies of generated headers get "#pragma once": none of them has an include guard (a C06 '
    'observation, not claimed), semantic content untouched',
    'an AST construct or callee outside the interpreted subset makes that program inconclusive (never a pass); '
    'findings are reported only after the g++-compiled program shows the same deviation',
]
OUTSIDE = ('models/configurations outside the family; C++ that clang rejects; behaviour of the real Dezyne runtime '
           'beyond the mocked contract')
finding_key = ss.finding_key
replay_custom = ss.replay_custom
evidence_extra = ss.evidence_extra


def extra(tier, seed, scratch, log):
    return ss.run_prop('C09', 'facilities', tier, seed, log)
