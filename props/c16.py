"""C16 — parses are isolated and repeatable.

Real code: DznJsonAst.__init__/process/parse_element/file_contents (incl. orjson decoding in the
history harness, which runs the real public API natively per path).
"""
from typing import List
from vf import realcode  # noqa: F401
from vf.spec import H, pick
from vf.fast import run_native, nativize_parser_layer
from vf import docgen as dg
from props.parser_common import leaf_items, unparse, ref_walk
from props.c14 import ref_ident

import orjson
from dznpy.json_ast import DznJsonAst, DznJsonError
from dznpy.scoping import NamespaceIdsTypeError

PROPERTY = 'C16'
LEVEL = 'model_checking'
FUNCTIONS = ['json_ast.DznJsonAst.__init__', 'json_ast.DznJsonAst.process',
             'json_ast.DznJsonAst.parse_element', 'json_ast.DznJsonAst.file_contents']
ASSUMPTIONS = [
    'histories now include load_file() (real file I/O on temp files) and a malformed document; sequences of <= 4 (quick) / 5 (thorough) operations over two parser slots and three documents (construct '
    'slot with document, process slot); each path fixes the operation sequence (solver-checked) and '
    'runs it on the real public API (constructor with JSON bytes, process())',
    '"equal result" = equal re-serialisation by the independent unparser (and dataclass equality)',
]
OUTSIDE = 'histories longer than the bound, more than two live parser instances'

_A, _B = leaf_items('A'), leaf_items('B')
DOCS = [
    # K.M next to doc 1's N.M: a namespace node must never be shared between parents / parsers
    dg.root([_A[0], dg.namespace(['N'], [_A[5], _A[7]]), _A[10],
             dg.namespace(['K'], [dg.namespace(['M'], [_A[7], _A[9]])])], comment='// d0'),
    dg.root([dg.namespace(['N'], [_B[3], dg.namespace(['M'], [_B[5]])]), _B[11], _B[12], _B[9]]),
    # malformed deep inside nested namespaces (a namespace header without a name): parsing fails half-way
    dg.root([_A[7], dg.namespace(['P', 'Q'], [_A[0], dg.namespace(['R'], [_B[10]]),
                                              {'<class>': 'namespace', 'elements': [_B[7]]}])]),
]
BYTES = [orjson.dumps(d) for d in DOCS]


def _fresh(doc):
    try:
        return unparse(dg.parse(doc))
    except DznJsonError as exc:
        return ('DznJsonError', str(exc))


FRESH = [_fresh(d) for d in DOCS]
assert all(FRESH[i] == ref_walk(DOCS[i]) for i in range(2)) and FRESH[2][0] == 'DznJsonError'
import os as _os
import tempfile as _tempfile
_DOCDIR = _tempfile.mkdtemp(prefix='vf_c16_')
FILES = []
for _i, _b in enumerate(BYTES):
    # the same base name in different directories (a cache keyed by base name would mix them up)
    _os.makedirs(_os.path.join(_DOCDIR, f'dir{_i}'))
    _path = _os.path.join(_DOCDIR, f'dir{_i}', 'Model.json')
    with open(_path, 'wb') as _fh:
        _fh.write(_b)
    FILES.append(_path)
import atexit as _atexit
import shutil as _shutil
_atexit.register(_shutil.rmtree, _DOCDIR, True)
ND = len(DOCS)
# operations: construct(slot, doc) | load_file(slot, doc) | process(slot)
NOPS = 2 * ND + 2 * ND + 2


def _history(ops: List[int]) -> bool:
    slots = [None, None]
    slot_doc = [None, None]
    handed_out = []               # (result object, expected unparse at hand-out time)
    for op in ops:
        if op < 2 * ND:
            slot, doc = op // ND, op % ND
            slots[slot] = DznJsonAst(json_contents=BYTES[doc])
            slot_doc[slot] = doc
        elif op < 4 * ND:
            slot, doc = (op - 2 * ND) // ND, (op - 2 * ND) % ND
            if slots[slot] is None:
                continue
            if slots[slot].load_file(FILES[doc]) is not slots[slot]:     # fluent interface
                return False
            slot_doc[slot] = doc
        else:
            slot = op - 4 * ND
            if slots[slot] is None:
                continue
            expect = FRESH[slot_doc[slot]]
            try:
                res = slots[slot].process()       # anything but the documented error escapes = failure
            except DznJsonError as exc:
                if expect != ('DznJsonError', str(exc)):
                    return False      # differs from parsing that document alone
                continue
            if unparse(res) != expect:
                return False          # differs from parsing that document alone
            handed_out.append((res, expect))
        for res, exp in handed_out:   # results handed out earlier stay as they were
            if unparse(res) != exp:
                return False
    return True


def h_history(n: int, o0: int, o1: int, o2: int, o3: int, o4: int, o5: int) -> bool:
    """Any sequence of n operations."""
    ops = [pick(range(NOPS), o) for o in [o0, o1, o2, o3, o4, o5][:n]]
    return run_native(_history, ops)


nativize_parser_layer()


def h_twice_wide(s: str, t: str) -> bool:
    """One instance asked to process its document twice (symbolic identifier / payload inside)."""
    doc = dg.root([dg.namespace(['N'], [dg.component([s], [dg.port(t, ['I'], 'provides')])]),
                   dg.extern(['X'], t)])
    parser = DznJsonAst()
    parser._ast = doc  # pylint: disable=protected-access
    try:
        first = parser.process()
    except NamespaceIdsTypeError:
        return not ref_ident(s)
    snap = unparse(first)
    second = parser.process()
    other = DznJsonAst()
    other._ast = doc  # pylint: disable=protected-access
    fresh = unparse(other.process())
    return snap == fresh and unparse(second) == fresh and unparse(first) == snap


SPECS = [
    H('h_history', 'deep', pre=['0 <= n <= {L}'] + [f'0 <= o{i} < {NOPS}' for i in range(6)],
      quick=dict(L=4, ct=280, pt=30), thorough=dict(L=5, ct=1700, pt=30),
      shards=lambda p: [f'o0 == {i} and o1 % 2 == {j}' for i in range(NOPS) for j in range(2)],
      bounds='every history of <= {L} operations from {{construct slot0/slot1 with one of 3 documents (one '
             'of them malformed inside nested namespaces), load_file into slot0/slot1, process slot0/slot1}}'),
    H('h_twice_wide', 'wide', pre=['len(s) <= {N}', 'len(t) <= {N}'],
      quick=dict(N=2, ct=250, pt=30), thorough=dict(N=3, ct=1500, pt=60),
      bounds='process() twice on one instance; symbolic component name and payload string, len <= {N}'),
]
