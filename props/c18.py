"""C18 — indentation shifts text without changing it.

Real code: Indentizer.__post_init__/to_list/to_str, TextBlock.indent/set_indentor
(/repo/src/dznpy/text_gen.py).
"""
from typing import List, Optional
from vf import realcode  # noqa: F401
from vf.spec import H

from dznpy.text_gen import TextBlock, Indentizer, Indentor, BulletList, BulletListMode

PROPERTY = 'C18'
LEVEL = 'model_checking'
FUNCTIONS = ['text_gen.Indentizer.__post_init__', 'text_gen.Indentizer.to_list',
             'text_gen.Indentizer.to_str', 'text_gen.TextBlock.indent',
             'text_gen.TextBlock.set_indentor', 'misc_utils.flatten_to_strlist']
ASSUMPTIONS = [
    "CrossHair's symbolic model of str (strip, format padding, concatenation) is faithful to CPython; "
    'counterexamples are replayed natively',
    'whitespace = the code points for which CPython str.isspace() is true (table computed natively at '
    'import, not through CrossHair)',
    'a bullet glyph is a non-empty marker without whitespace at either end (a glyph of blanks has no '
    'defined rendering); lines handed to the indenter hold no line breaks when they come from a '
    'TextBlock',
    '"text unchanged" is read as the code documents it: whitespace-only lines become empty, bullet '
    'lines lose trailing whitespace only',
]
OUTSIDE = ('lines longer than the stated bound, more than 3 lines, glyphs longer than 4 characters, '
           'indent widths above 8')

WS = ''.join(chr(i) for i in range(0x110000) if chr(i).isspace())


def ref_blank(s: str) -> bool:
    for ch in s:
        if ch not in WS:
            return False
    return True


def ref_rstrip(s: str) -> str:
    n = len(s)
    while n > 0 and s[n - 1] in WS:
        n -= 1
    return s[:n]


GLYPHS = ['-', '//', '-->', '[*]>']
WIDTHS = [0, 1, 2, 3, 4, 6]
# (tab?, width, mode: 0 none / 1 all / 2 first-only, glyph)
CONFIGS = []
for _tab in (False, True):
    for _w in (WIDTHS if not _tab else [4]):
        CONFIGS.append((_tab, _w, 0, ''))
        for _mode in (1, 2):
            for _g in GLYPHS:
                CONFIGS.append((_tab, _w, _mode, _g))


def make_indentizer(tab: bool, width: int, mode: int, glyph: str) -> Indentizer:
    bl = None
    if mode == 1:
        bl = BulletList(mode=BulletListMode.ALL, glyph=glyph)
    elif mode == 2:
        bl = BulletList(mode=BulletListMode.FIRST_ONLY, glyph=glyph)
    return Indentizer(indentor=Indentor.TAB if tab else Indentor.SPACES, spaces_count=width,
                      bullet_list=bl)


def ref_indent(tab: bool, width: int, mode: int, glyph: str, lines: List[str]) -> List[str]:
    """Direct specification of the indenter."""
    if not lines:
        return []
    if tab:
        white = '\t'
        bullet = glyph + '\t'
    elif mode == 0:
        white = ' ' * width
        bullet = ''
    else:
        bullet = glyph + ' '
        while len(bullet) < width:
            bullet += ' '
        white = ' ' * len(bullet)     # continuation lines align with the text after the glyph

    def plain(line: str) -> str:
        return '' if ref_blank(line) else white + line

    if mode == 0:
        return [plain(x) for x in lines]
    if mode == 1:
        return [ref_rstrip(bullet + x) for x in lines]
    return [ref_rstrip(bullet + lines[0])] + [plain(x) for x in lines[1:]]


def _agree(ind: Indentizer, cfg, lines: List[str]) -> bool:
    tab, width, mode, glyph = cfg
    src = list(lines)
    got = ind.to_list(lines)
    exp = ref_indent(tab, width, mode, glyph, src)
    if got != exp or lines != src or len(got) != len(src):
        return False
    as_str = ind.to_str(lines)                       # list form and string form agree
    return as_str == '\n'.join(exp) + '\n'


def h_one_line(cfg: int, a: str) -> bool:
    """One arbitrary line under configuration cfg."""
    c = CONFIGS[cfg]
    return _agree(make_indentizer(*c), c, [a])


def h_two_lines(cfg: int, a: str, b: str) -> bool:
    """Two arbitrary lines (first/continuation treatment differs in first-only mode)."""
    c = CONFIGS[cfg]
    return _agree(make_indentizer(*c), c, [a, b])


LINE_POOL = ['a', '', ' ', ' a', 'a ', '\t', 'a b', ' \t ', 'x\xa0', '-', '  b  ']


def h_deep_lines(cfg: int, n: int, c0: int, c1: int, c2: int) -> bool:
    """<= 3 lines from the class alphabet under configuration cfg, plus repeated indentation and
    indentation through a TextBlock with a header."""
    c = CONFIGS[cfg]
    ind = make_indentizer(*c)
    lines = [LINE_POOL[i] for i in [c0, c1, c2][:n]]
    if not _agree(ind, c, lines):
        return False
    once = ref_indent(*c, lines)
    twice = ref_indent(*c, once)
    tb = TextBlock(header=['H', ' h2'])
    tb.lines = list(lines)
    ret = tb.indent(ind)
    if ret is not tb or tb.lines != once:
        return False
    if str(tb) != ''.join(x + '\n' for x in ['H', ' h2'] + once):   # header never indented
        return False
    tb.indent()                                                      # same indentizer again
    if tb.lines != twice:
        return False
    hdr = TextBlock(['H', ' h2'])
    owner = TextBlock(list(lines), header=hdr)
    hdr.indent(ind)                                                  # indenting the block that served as header
    hdr.append('later')
    return str(owner) == ''.join(x + '\n' for x in ['H', ' h2'] + list(lines)) and owner.lines == list(lines)


def h_sym_config(width: int, mode: int, g: str, c0: int, c1: int) -> bool:
    """Symbolic indent width and symbolic glyph (spaces indentor) on two pool lines."""
    glyph = g if mode != 0 else ''
    c = (False, width, mode, glyph)
    lines = [LINE_POOL[c0], LINE_POOL[c1]]
    return _agree(make_indentizer(*c), c, lines)


def glyph_ok(g: str) -> bool:
    return len(g) >= 1 and g[0] not in WS and g[len(g) - 1] not in WS


SPECS = [
    H('h_one_line', 'wide', pre=['len(a) <= {N}', '0 <= cfg < %d' % len(CONFIGS)],
      quick=dict(N=2, ct=200, pt=30), thorough=dict(N=4, ct=1500, pt=60),
      shards=lambda p: [f'cfg == {i}' for i in range(len(CONFIGS))],
      bounds='%d indenter configurations (spaces 0,1,2,3,4,6 / tab; none, all, first-only; glyph '
             'lengths 1-4) x one unconstrained unicode line of len <= {N}' % len(CONFIGS)),
    H('h_two_lines', 'wide', pre=['len(a) <= {N}', 'len(b) <= {N}', '0 <= cfg < %d' % len(CONFIGS)],
      quick=None, thorough=dict(N=2, ct=1500, pt=60),
      shards=lambda p: [f'cfg == {i}' for i in range(len(CONFIGS))],
      bounds='%d configurations x two unconstrained unicode lines of len <= {N}' % len(CONFIGS)),
    H('h_deep_lines', 'deep',
      pre=['0 <= n <= {I}', '0 <= c0 < {P}', '0 <= c1 < {P}', '0 <= c2 < {P}',
           '0 <= cfg < %d' % len(CONFIGS)],
      quick=dict(I=2, P=6, ct=300, pt=30), thorough=dict(I=3, P=len(LINE_POOL), ct=1500, pt=60),
      shards=lambda p: [f'cfg == {i}' for i in range(len(CONFIGS))],
      bounds='%d configurations x <= {I} lines from a {P}-line class alphabet (blank, leading/trailing '
             'blanks, tab, nbsp, glyph-like), incl. TextBlock.indent with header and repeated '
             'indentation' % len(CONFIGS)),
    H('h_sym_config', 'hunt',
      pre=['0 <= width <= 8', '0 <= mode <= 2', 'len(g) <= 3', 'glyph_ok(g)',
           '0 <= c0 < {P}', '0 <= c1 < {P}'],
      quick=dict(P=3, ct=60, pt=20), thorough=dict(P=6, ct=600, pt=60),
      bounds='symbolic width 0..8, symbolic glyph len <= 3, two pool lines (bug hunting only)'),
]
