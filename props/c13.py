"""C13 — a build either returns a complete result or fails with a diagnosed error.

Real code: Builder.build end to end (create_dzn_elements, check_multiclient_cfg, PortsCfg.match,
find_fqn/FindResult, all generators), PortSelect/PortsSemanticsCfg/PortsCfg/MultiClientPortCfg
construction.
"""
import traceback
import contextlib
import dataclasses
import io
from typing import Callable, List, Optional, Tuple
from vf import realcode  # noqa: F401
from vf.spec import H, pick
from vf.fast import run_native, nativize_text_layer
from vf import docgen as dg
from vf import family as fam

from dznpy.adv_shell import Builder, MultiClientPortCfg, all_mts
from dznpy.adv_shell.common import Configuration, FacilitiesOrigin
from dznpy.adv_shell.port_selection import PortSelect, PortWildcard, PortsCfg, PortsSemanticsCfg
from dznpy.adv_shell.types import AdvShellError, MultiClientCfgError
from dznpy.ast_view import FindError
from dznpy.cpp_gen import CppGenError
from dznpy.json_ast import DznJsonError
from dznpy.scoping import NamespaceIdsTypeError, ns_ids_t

PROPERTY = 'C13'
LEVEL = 'model_checking'
FUNCTIONS = ['adv_shell.Builder.build', 'processing.create_dzn_elements', 'processing.check_multiclient_cfg',
             'processing.create_cpp_portitf', 'processing.create_constructor',
             'port_selection.PortsCfg.match', 'port_selection.MultiClientPortCfg.__post_init__',
             'ast_view.find_fqn', 'ast_view.FindResult.get_single_instance', 'common.DznPortItf.__post_init__']
ASSUMPTIONS = [
    'diagnosed error = AdvShellError, MultiClientCfgError, FindError, NamespaceIdsTypeError, CppGenError, '
    'DznJsonError, or a ValueError/TypeError raised by an explicit `raise` statement inside dznpy with a '
    'message (the library validates some settings that way, e.g. a multi-client port configured STS); '
    'anything else (KeyError, AttributeError, IndexError, RecursionError, interpreter-raised TypeError) is '
    'an internal error',
    'family: %d models x their valid port configurations x facility origin x namespace prefix (%d valid '
    'cases), each also with every applicable single fault from a list of 28; models are well-formed '
    '(event parameters typed by externs)' % (len(fam.MODELS), len(fam.VALID)),
    'each path fixes (case, fault) by solver-checked branching and runs the real code; a per-path '
    'timeout acts as the watchdog (a timeout is inconclusive, not a violation)',
]
OUTSIDE = ('models/configurations outside the family, simultaneous faults, ill-formed models (parameters '
           'typed by non-extern declarations)')

OWN_ERRORS = (AdvShellError, MultiClientCfgError, FindError, NamespaceIdsTypeError, CppGenError,
              DznJsonError)
EXPECTED_FILES = 8


def diagnosed(exc: BaseException) -> bool:
    if isinstance(exc, OWN_ERRORS):
        return bool(str(exc))
    if isinstance(exc, (ValueError, TypeError)) and str(exc):
        frames = traceback.extract_tb(exc.__traceback__)
        last = frames[-1]
        return '/dznpy/' in last.filename.replace('\\', '/') and (last.line or '').lstrip().startswith('raise')
    return False


def complete(result, case: fam.Case) -> bool:
    files = result.files
    if len(files) != EXPECTED_FILES:
        return False
    m = fam.MODELS_ALL[case.model_i]
    pre = '_'.join(list(case.prefix or ()) + ['Dzn'])
    names = [f.filename for f in files]
    want = [f'{m.comp}AdvShell.hh', f'{m.comp}AdvShell.cc'] + \
        [f'{pre}_{x}.hh' for x in ('StrictPort', 'ILog', 'MiscUtils', 'MetaHelpers', 'MultiClientSelector',
                                   'MutexWrapped')]
    return names == want and all(isinstance(f.contents, str) and f.contents for f in files)


# ---- faults: each returns a Configuration (or raises while constructing it) -------------------------
_NONE, _ALL, _REM = PortSelect(PortWildcard.NONE), PortSelect(PortWildcard.ALL), PortSelect(PortWildcard.REMAINING)


def _sel(*names):
    return PortSelect(set(names))


def _provs(m):
    return [p.name for p in m.ports if p.direction == 'provides']


def _reqs(m):
    return [p.name for p in m.ports if p.direction == 'requires' and not p.injected]


def _bad_model(m: fam.Model, mode: str):
    """Model variants with an unresolvable / ambiguous port type."""
    if not m.ports:
        return None
    doc = fam.model_doc(m)
    first_itf = m.ports[0].itf

    def patch(elements):
        for el in elements:
            if isinstance(el, dict) and el.get('<class>') == 'namespace':
                patch(el['elements'])
            elif isinstance(el, dict) and el.get('<class>') in ('component', 'system'):
                prts = el['ports']['elements']
                if prts and mode == 'unresolvable':
                    prts[0]['type_name'] = dg.sn('Nope')
    patch(doc['elements'])
    if mode == 'ambiguous':
        if m.ns:
            doc['elements'].append(dg.interface([first_itf], []))          # also visible on the chain
        else:
            doc['elements'].append(dg.interface([first_itf], [dg.event('dup')]))   # same fqn twice
    if mode in ('claim_reply_extern', 'claim_reply_subint'):
        port, claim, _val, _rel = fam.MC_FOR[m.label]
        mc_itf = next(pp.itf for pp in m.ports if pp.name == port)

        def retype(elements):
            for el in elements:
                if isinstance(el, dict) and el.get('<class>') == 'namespace':
                    retype(el['elements'])
                elif isinstance(el, dict) and el.get('<class>') == 'interface' and el['name']['ids'] == [mc_itf]:
                    if mode == 'claim_reply_subint':
                        el['types']['elements'].append(dg.subint(['Cnt'], 0, 3))
                    for ev in el['events']['elements']:
                        if ev['name'] == claim:
                            ev['signature']['type_name'] = dg.sn('TInt' if mode == 'claim_reply_extern' else 'Cnt')
        retype(doc['elements'])
    if mode == 'wrongkind':
        # the port type name resolves to an enum only
        def retag(elements):
            for i, el in enumerate(elements):
                if isinstance(el, dict) and el.get('<class>') == 'namespace':
                    retag(el['elements'])
                elif isinstance(el, dict) and el.get('<class>') == 'interface' \
                        and el['name']['ids'] == [first_itf]:
                    elements[i] = dg.enum([first_itf], ['A'])
        retag(doc['elements'])
    return dg.parse(doc)


def build_fault(case: fam.Case, base_cfg: PortsCfg, fault: int) -> Optional[Callable[[], Configuration]]:
    """Return a thunk producing the faulty Configuration, or None when the fault does not apply."""
    m = fam.MODELS_ALL[case.model_i]
    mc = fam.mc_cfg(m)
    provs, reqs = _provs(m), _reqs(m)
    mk = lambda pc, **kw: (lambda: fam.make_configuration(case, pc() if callable(pc) else pc, **kw))  # noqa: E731
    if fault == 0:
        return mk(base_cfg, encapsulee=ns_ids_t('No.Such.Thing'))
    if fault == 1:
        return mk(base_cfg, encapsulee=ns_ids_t(list(m.ns) + [m.itfs[0].name]))
    if fault == 2:
        return mk(base_cfg, encapsulee=ns_ids_t(list(m.ns) + ['VfFrgn']))
    if fault == 3:
        return mk(base_cfg, encapsulee=ns_ids_t('TInt'))
    if fault in (4, 5, 6):
        mode = {4: 'unresolvable', 5: 'ambiguous', 6: 'wrongkind'}[fault]
        fc = _bad_model(m, mode)
        return None if fc is None else mk(base_cfg, fc=fc)
    if fault == 7:
        return mk(lambda: PortsCfg(base_cfg.provides, PortsSemanticsCfg(_sel('zz'), _REM), mc))
    if fault == 8:
        return mk(lambda: PortsCfg(PortsSemanticsCfg(_NONE, _sel('zz')), base_cfg.requires, mc))
    if fault == 9:      # an exposed port left without semantics
        if len(provs) >= 2 and mc is None:
            return mk(lambda: PortsCfg(PortsSemanticsCfg(_NONE, _sel(provs[0])), base_cfg.requires))
        if len(reqs) >= 2:
            return mk(lambda: PortsCfg(base_cfg.provides, PortsSemanticsCfg(_sel(reqs[0]), _NONE), mc))
        if provs and mc is None:
            return mk(lambda: PortsCfg(PortsSemanticsCfg(_NONE, _REM), PortsSemanticsCfg(_ALL, _NONE))
                      if False else PortsCfg(PortsSemanticsCfg(_sel('zz'), _NONE), base_cfg.requires))
        return None
    if fault == 10:
        return mk(lambda: PortsCfg(base_cfg.provides, PortsSemanticsCfg(_sel('a', 'b'), _sel('b')), mc))
    if fault == 11:
        return mk(lambda: PortsCfg(base_cfg.provides, PortsSemanticsCfg(_NONE, _NONE), mc))
    if fault == 12:
        return mk(lambda: PortsCfg(base_cfg.provides, PortsSemanticsCfg(_ALL, _sel('x')), mc))
    if fault == 13:
        return None if not provs else mk(lambda: PortsCfg(PortsSemanticsCfg(_sel(provs[0]), _REM),
                                                           base_cfg.requires, mc))
    if fault == 14:     # provides selection names a requires port
        return None if not reqs else mk(lambda: PortsCfg(PortsSemanticsCfg(_NONE, _sel(reqs[0])),
                                                         base_cfg.requires, mc))
    # ---- multi-client faults (on multi-client models with their all_mts style configuration)
    if fault >= 15 and mc is not None and base_cfg.multiclient is not None:
        port, claim, val, rel = fam.MC_FOR[m.label]
        mc_itf = next(i for i in m.itfs if i.name == next(p.itf for p in m.ports if p.name == port))
        out_events = [e.name for e in mc_itf.events if e.direction == 'out']
        variants = {
            15: lambda: MultiClientPortCfg('nope', claim, ns_ids_t(val), rel),
            16: lambda: MultiClientPortCfg(reqs[0] if reqs else 'zz', claim, ns_ids_t(val), rel),
            17: lambda: MultiClientPortCfg(port, 'NoClaim', ns_ids_t(val), rel),
            18: lambda: MultiClientPortCfg(port, rel, ns_ids_t(val), rel),              # void reply
            19: lambda: MultiClientPortCfg(port, claim, ns_ids_t('NotAField'), rel),
            20: lambda: MultiClientPortCfg(port, claim, ns_ids_t(val), 'NoRelease'),
            21: lambda: MultiClientPortCfg('', claim, ns_ids_t(val), rel),
            22: lambda: MultiClientPortCfg(port, claim, ns_ids_t(val), ''),
            24: lambda: MultiClientPortCfg(port, claim, ns_ids_t(val), out_events[0]),   # out-event as release
            25: lambda: MultiClientPortCfg(port, out_events[0], ns_ids_t(val), rel),     # out-event as claim
        }
        if fault in variants:
            return mk(lambda: PortsCfg(base_cfg.provides, base_cfg.requires, variants[fault]()))
        if fault == 23:  # multi-client port configured single-threaded
            return mk(lambda: PortsCfg(PortsSemanticsCfg(_ALL, _NONE), base_cfg.requires, mc))
        if fault in (26, 27):  # the claim event replies with a resolvable type that is not an enum
            fc = _bad_model(m, 'claim_reply_extern' if fault == 26 else 'claim_reply_subint')
            return mk(base_cfg, fc=fc)
    if fault == 15 and mc is None and provs:
        # multi-client settings on a model whose port cannot carry them
        itf = next(i for i in m.itfs if i.name == next(p.itf for p in m.ports if p.name == provs[0]))
        void_in = [e.name for e in itf.events if e.direction == 'in' and e.reply == 'void']
        ev = void_in[0] if void_in else 'NoSuchEvent'      # claim event without an enum reply / absent
        return mk(lambda: PortsCfg(PortsSemanticsCfg(_NONE, _ALL), base_cfg.requires,
                                   MultiClientPortCfg(provs[0], ev, ns_ids_t('Ok'), ev)))
    return None


NFAULTS = 28


# the configuration fields that do not take part in the validity of a configuration: verbose, creator_info
FLAGS = [dict(), dict(verbose=True), dict(creator_info=None), dict(verbose=True, creator_info=None)]


def _quiet_build(cfg):
    with contextlib.redirect_stdout(io.StringIO()):
        return Builder().build(cfg)


def _valid_case(ci: int, flags: int) -> bool:
    case, pc = fam.VALID[ci]
    cfg = dataclasses.replace(fam.make_configuration(case, pc), **FLAGS[flags])
    res = _quiet_build(cfg)              # valid inputs always succeed; any exception escapes
    return complete(res, case)


def _fault_case(ci: int, fault: int, flags: int) -> bool:
    case, pc = fam.VALID[ci]
    thunk = build_fault(case, pc, fault)
    if thunk is None:
        return True
    try:
        cfg = dataclasses.replace(thunk(), **FLAGS[flags])
        _quiet_build(cfg)
    except Exception as exc:  # pylint: disable=broad-except
        if diagnosed(exc):
            return True
        raise
    return False                          # invalid input must never produce files


def h_valid(ci: int, flags: int) -> bool:
    """Every valid case of the family builds the complete file set (verbose on/off, creator_info present/absent)."""
    return run_native(_valid_case, pick(range(len(fam.VALID)), ci), pick(range(len(FLAGS)), flags))


def h_fault(ci: int, fault: int, flags: int) -> bool:
    """Every single-fault variation of every valid case fails with a diagnosed error (verbose off/on)."""
    return run_native(_fault_case, pick(range(len(fam.VALID)), ci), pick(range(NFAULTS), fault),
                      pick(range(2), flags))


# ---- symbolic names (hunt) -------------------------------------------------------------------------
_TINY = dg.parse(dg.root([
    dg.interface(['I'], [dg.event('c', 'in', ['R']), dg.event('r'), dg.event('o', 'out')],
                 types=[dg.enum(['R'], ['k', 'n'])]),
    dg.component(['C'], [dg.port('p', ['I'], 'provides')])]))
nativize_text_layer()


def h_sym_names(enc: str, port: str, claim: str, val: str, rel: str) -> bool:
    """Symbolic encapsulee / multi-client names: success or a diagnosed error, nothing else."""
    try:
        mc = MultiClientPortCfg(port, claim, ns_ids_t(val), rel)
        cfg = Configuration('m.dzn', _TINY, 'S', ns_ids_t(enc), all_mts(mc), FacilitiesOrigin.CREATE, 'c')
        res = Builder().build(cfg)
    except Exception as exc:  # pylint: disable=broad-except
        if diagnosed(exc):
            return True
        raise
    # valid settings: the enum-replying in-event 'c' as claim, a field of its enum, an in-event as release
    return len(res.files) == EXPECTED_FILES and (enc, port, claim) == ('C', 'p', 'c') \
        and val in ('k', 'n') and rel in ('c', 'r')


SPECS = [
    H('h_valid', 'deep', pre=['0 <= ci < %d' % len(fam.VALID), '0 <= flags < 4'],
      quick=dict(ct=280, pt=60), thorough=dict(ct=600, pt=60),
      shards=lambda p: [f'ci % 8 == {i}' for i in range(8)],
      bounds='all %d valid cases of the family x verbose off/on x creator_info present/absent' % len(fam.VALID)),
    H('h_fault', 'deep', pre=['0 <= ci < %d' % len(fam.VALID), '0 <= fault < %d' % NFAULTS, '0 <= flags < 2'],
      quick=dict(ct=280, pt=60), thorough=dict(ct=900, pt=60),
      shards=lambda p: [f'ci % 16 == {i}' for i in range(16)],
      bounds='%d valid cases x %d single faults (unknown / non-component encapsulee, unresolvable / '
             'ambiguous / wrong-kind port type, unknown / unassigned / contradictory selections, every '
             'invalid multi-client field) x verbose off/on' % (len(fam.VALID), NFAULTS)),
    H('h_sym_names', 'hunt',
      pre=['len(enc) <= 1', 'len(port) <= 1', 'len(claim) <= 1', 'len(val) <= 1', 'len(rel) <= 1'],
      quick=dict(ct=100, pt=30), thorough=dict(ct=900, pt=60),
      bounds='symbolic encapsulee, port, claim, granting value and release names (len <= 1) on a tiny model '
             '(bug hunting only)'),
]
