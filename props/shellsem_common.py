"""Shared driver for the ShellSem (E3) properties C01, C02, C04, C09, C10."""
import random
import time
from typing import Dict, List

from vf import realcode  # noqa: F401
from vf.spec import Ob
from vf import family as fam
from vf.shellsem import run as ssrun

LEVEL = 'translation_validation'
_LAST: Dict = {}


def finding_key(ob: Ob) -> str:
    return ob.call or ob.name


def run_prop(prop: str, what: str, tier: str, seed: int, log, opts=None, key_of=None, only=None,
             routing_validation=True, bounds='family program') -> List[Ob]:
    t0 = time.time()
    pool = fam.VALID if tier == 'quick' else fam.ALL_CASES      # ALL_CASES starts with VALID
    indices = [i for i in range(len(pool)) if only is None or only(pool[i])]
    results = ssrun.run_family(what, indices, opts or {})
    obs: List[Ob] = []
    # ---- trusted-base validation: machine vs compiled program on sampled programs
    rnd = random.Random(seed)
    n_val = 12 if tier == 'quick' else 48
    sample = sorted(rnd.sample(indices, min(n_val, len(indices)))) if routing_validation else []
    vals = ssrun.run_parallel(ssrun.validate_case, sample)
    for r in results:                       # validation carried out inside the analysis (threaded scenarios)
        v = r.get('validation')
        if v is None or r['status'] != 'ok':
            continue
        vals.append({'label': r['label'], 'agree': (not v['detail']) if v['checked'] else None,
                     'detail': v['detail'] or 'nothing could be validated', 'n_events': v['events']})
    agree = [v for v in vals if v['agree'] is True]
    for v in vals:
        if v['agree'] is False:
            obs.append(Ob(name=f'validate:{v["label"]}', engine='shellsem', kind='validation', claim=False,
                          verdict='harness_error', detail='abstract machine and compiled program disagree: '
                          + v['detail'], module=f'props.{prop.lower()}'))
        elif v['agree'] is None:
            obs.append(Ob(name=f'validate:{v["label"]}', engine='shellsem', kind='validation', claim=False,
                          verdict='inconclusive', detail=v['detail'], module=f'props.{prop.lower()}'))
    # ---- per program obligations, findings replayed on the compiled program
    replay_jobs, owners = [], []
    for r in results:
        ob = Ob(name=r['label'], engine='shellsem', kind='program', claim=True, verdict='inconclusive',
                detail=r['detail'], paths=r['stats']['paths'], confirmed_paths=r['stats']['paths'],
                solver_queries=r['stats']['queries'], solver_s=round(r['stats']['solver_s'], 3),
                wall_s=r['wall_s'], bounds=bounds, module=f'props.{prop.lower()}')
        if r['status'] == 'ok':
            mine = [f for f in r['findings'] if f['prop'] == prop or (prop == 'C04' and f['prop'] in ('C01', 'C02', 'C04'))]
            if not mine:
                ob.verdict = 'confirmed'
            else:
                ob.verdict = 'pending'
                # replay one finding per distinct key
                seen = set()
                for f in mine:
                    k = key_of(f) if key_of else f['what']
                    if k in seen:
                        continue
                    seen.add(k)
                    replay_jobs.append((r['idx'], what, f))
                    owners.append((ob, f, k))
        obs.append(ob)
    replays = ssrun.run_parallel(ssrun.replay_finding, replay_jobs)
    extra: List[Ob] = []
    for (ob, f, k), rp in zip(owners, replays):
        fo = Ob(name=f'{ob.name} :: {f["what"][:150]}', engine='shellsem', kind='finding', claim=False,
                verdict='inconclusive', module=f'props.{prop.lower()}', bounds='')
        fo.call = k
        if rp['reproduced'] is True:
            fo.verdict = 'refuted'
            fo.detail = f'{f["what"]} | compiled program: {rp["detail"]}'
            fo.validated = 1
            fo.replay_path = write_replay(prop, what, ob.name, f, k)
        elif rp['reproduced'] is False:
            fo.verdict = 'harness_error'
            fo.detail = f'machine finding does not reproduce on the compiled program: {f["what"]} | {rp["detail"]}'
        else:
            fo.detail = f'replay broke: {f["what"]} | {rp["detail"]}'
        extra.append(fo)
    known_keys = _known_keys(prop)
    for ob in obs:
        if ob.verdict == 'pending':
            mine = [fo for fo in extra if fo.name.startswith(ob.name + ' :: ')]
            if mine and all(fo.verdict == 'refuted' and fo.call in known_keys for fo in mine):
                ob.verdict = 'confirmed'        # everything else in this program held
                ob.detail = 'all scenarios hold except the listed known finding(s): ' + \
                            ', '.join(sorted({fo.call for fo in mine}))
            elif any(fo.verdict == 'refuted' for fo in mine):
                ob.verdict = 'finding'          # details are carried by the finding obligations
                ob.claim = False
            else:
                ob.verdict = 'inconclusive'
                ob.detail = 'findings that could not be confirmed on the compiled program'
    _LAST.clear()
    _LAST.update({'programs': len(results),
                  'disagreements_checked': len(vals),
                  'machine_vs_compiled_agree': len(agree),
                  'events_compared': sum(v.get('n_events', 0) for v in agree),
                  'clang_s': round(sum(r['clang_s'] for r in results), 1),
                  'inconclusive_programs': [r['label'] + ': ' + r['detail'][:100] for r in results
                                            if r['status'] != 'ok'][:20],
                  'samples': [{'program': r['label'], 'paths': r['stats']['paths'],
                               'queries': r['stats']['queries'], 'findings': len(r['findings'])}
                              for r in results[:6]] +
                             [{'validated_against_g++': v['label'], 'events': v.get('n_events')} for v in agree[:4]],
                  'traces_validated_against_impl': len(agree) + sum(fo.validated for fo in extra)})
    threaded = [r['validation'] for r in results if r.get('validation')]
    if threaded:
        _LAST.update({'schedules_explored': sum(v.get('schedules', 0) for v in threaded),
                      'bounds_per_program (cycles, out-events, preemptions, client threads)':
                          sorted({json_dumps(v.get('configs')) for v in threaded}),
                      'schedules_replayed_on_compiled_program': sum(v.get('checked', 0) for v in threaded),
                      'tsan_free_runs': sum(v.get('tsan_runs', 0) for v in threaded)})
    log(f'[shellsem] {prop}/{what}: {len(results)} programs, '
        f'{sum(1 for r in results if r["status"] == "ok")} decided, {len(replay_jobs)} findings replayed, '
        f'{len(agree)}/{len(vals)} machine-vs-g++ validations agree, {time.time() - t0:.0f}s')
    return obs + extra


def json_dumps(x) -> str:
    import json
    return json.dumps(x)


def _known_keys(prop: str):
    import json
    import os
    path = os.path.join(os.path.dirname(os.path.dirname(os.path.abspath(__file__))), 'known_findings.jsonl')
    keys = set()
    if os.path.exists(path):
        with open(path, encoding='utf-8') as fh:
            for line in fh:
                line = line.strip()
                if line and not line.startswith('#'):
                    rec = json.loads(line)
                    if rec.get('property') == prop and rec.get('status') == 'known':
                        keys.add(rec['key'])
    return keys


def write_replay(prop: str, what: str, label: str, finding: Dict, key: str) -> str:
    import json
    import os
    import hashlib
    rdir = os.path.join(os.path.dirname(os.path.dirname(os.path.abspath(__file__))), 'replays', prop)
    os.makedirs(rdir, exist_ok=True)
    idx = next(i for i, (c, _pc) in enumerate(fam.ALL_CASES) if c.label == label)
    name = hashlib.sha1((label + key).encode()).hexdigest()[:12]
    path = os.path.join(rdir, f'ss_{name}.json')
    with open(path, 'w', encoding='utf-8') as fh:
        json.dump({'property': prop, 'module': f'props.{prop.lower()}', 'kind': 'custom', 'program': label,
                   'idx': idx, 'scenario': what, 'finding': finding, 'key': key, 'what': finding['what']},
                  fh, indent=1)
    return path


def replay_custom(rec: Dict):
    """(ok, info): ok False = the property still fails on the compiled program for this record."""
    label = rec.get('program')
    idx = next((i for i, (c, _pc) in enumerate(fam.ALL_CASES) if c.label == label), rec.get('idx'))
    rp = ssrun.replay_finding((idx, rec['scenario'], rec['finding']))
    if rp['reproduced'] is True:
        return False, rp['detail']
    if rp['reproduced'] is False:
        return True, rp['detail']
    return None, rp['detail']


def evidence_extra():
    return dict(_LAST)
