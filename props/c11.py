"""C11 — the generated multi-client support under thread interleavings.

Threaded ShellSem: the clang AST of the generated shell, MultiClientSelector and MutexWrapped is executed
by the abstract machine with several threads of control (one per client performing claim/use/release
cycles on its own client port, one environment thread raising component out-events on the dispatcher).
Thread switches happen at the synchronisation and observation points only (std::mutex lock, dispatcher
entry, log sink, external handlers); every schedule with a bounded number of preemptions is executed, the
schedule choices being decisions of the z3-backed path oracle.  Checked on every schedule: lock
discipline of the selector's shared state (data-race freedom), no deadlock / no dispatcher wait while
the mutex is held, and "a granted client receives the out-events until it itself releases".  MutexWrapped
is executed from its own AST for the exclusion / reset / scope-exit protocol.  Findings are replayed on
the g++-compiled program: real std::threads gated at the same points follow the machine's schedule;
races are confirmed by ThreadSanitizer on free runs.
"""
from vf import realcode  # noqa: F401
from props import shellsem_common as ss

PROPERTY = 'C11'
LEVEL = 'model_checking'
FUNCTIONS = ['generated InitializePort<Port> claim / release lambdas (forwarded call, then Select / Deselect)',
             'generated constructor: out-event rerouting through CurrentClient()',
             'MultiClientSelector::Select/Deselect/CurrentClient', 'MutexWrapped::operator() + RaiiLockDeleter',
             'ILogWithContext (log sink calls are observation points)',
             'processing.initialize_port_claim_snippet', 'processing.initialize_port_release_snippet',
             'processing.reroute_multiclient_out_events']
ASSUMPTIONS = [
    'dispatcher model: a closure given to dzn::shell runs inline on the calling thread while that thread holds the '
    'dispatcher token (closures are serialised, callers block until theirs has run); component out-events are raised '
    'by a closure the dispatcher runs on its own behalf',
    'sequentially consistent memory; a thread switch can happen only at std::mutex::lock, at the dispatcher entry, '
    'at the log sink and at external handlers outside the dispatcher - between two such points a thread touches '
    'shared selector state only under the mutex or the dispatcher, which the lock-discipline check itself enforces '
    '(a violation of the discipline is reported as a data race, so the atomic-block reduction is sound whenever the '
    'check passes)',
    'exclusive-access protocol of the component (grants only while nobody holds the claim); "granted" starts when '
    'the claim call has returned the granting reply to the client, and ends when the client starts its release call',
    'clients are registered and FinalConstruct has run before the threads start (m_clients immutable afterwards)',
    'trusted base as for C04 (clang AST, ShellSem intrinsics, mock runtime); sampled schedules are executed on the '
    'g++-compiled program with gated real threads and must give the same observable events',
]
OUTSIDE = ('more than the stated number of preemptions per schedule, more than 2 (quick) / 3 (thorough) client threads, '
           'more claim/use/release cycles or out-events than stated, weak-memory effects, the real Dezyne pump '
           '(its worker thread, timers, coroutine-based blocking ports), dynamic registration of clients')
replay_custom = ss.replay_custom
evidence_extra = ss.evidence_extra
finding_key = ss.finding_key


def key_of(f) -> str:
    """identity of a finding: what fails and through which step, not which client or program"""
    return f.get('witness', {}).get('key') or f['what']


# (claim/use/release cycles per client, out-events raised, preemption bound, client threads, which other in-event /
#  out-event of the interface is exercised)
CONFIGS = {'quick': dict(configs=[(1, 1, 2, 2, 0), (1, 1, 1, 2, 1)], n_validate=3, tsan_runs=2, sample_every=97),
           'thorough': dict(configs=[(1, 1, 3, 2, 0), (2, 1, 2, 2, 1), (1, 2, 2, 2, 0), (1, 1, 2, 2, 1)], sparse_configs=[(1, 1, 2, 3, 0)], sparse_every=6,
                            n_validate=4, tsan_runs=6,
                            sample_every=211)}


BOUNDS = {'quick': 'multi-client programs of the family; 2 client threads + environment thread; 1 claim/use/release '
                   'cycle per client, 1 out-event, every schedule with <= 2 preemptions (827 per program)',
          'thorough': 'multi-client programs of the family incl. extra models; 2 client threads + environment: '
                      '(1 cycle, 1 out-event, <= 3 preemptions), (2 cycles, 1 out-event, <= 2), (1 cycle, 2 out-events, '
                      '<= 2); 3 client threads (1 cycle, 1 out-event, <= 2 preemptions) on every 6th program'}


def extra(tier, seed, scratch, log):
    return ss.run_prop('C11', 'mc_threads', tier, seed, log, CONFIGS[tier], key_of,
                       only=lambda cp: cp[1].multiclient is not None, routing_validation=False,
                       bounds=BOUNDS[tier])
