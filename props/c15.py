"""C15 — the parser rejects malformed input only with its documented errors.

Real code: json_ast.ElementHelper getters, get_class_value/assert_class, every parse_*,
DznJsonAst.process/parse_element, scoping.NamespaceIds validation.
"""
import copy
from typing import Any, List, Tuple
from vf import realcode  # noqa: F401
from vf.spec import H, pick
from vf.fast import run_native, nativize_parser_layer
from vf import docgen as dg
from props.parser_common import leaf_items

from dznpy.json_ast import DznJsonAst, DznJsonError, parse_event
from dznpy.scoping import NamespaceIdsTypeError
from dznpy import ast

PROPERTY = 'C15'
LEVEL = 'model_checking'
FUNCTIONS = ['json_ast.ElementHelper.*', 'json_ast.get_class_value', 'json_ast.parse_* (all)',
             'json_ast.DznJsonAst.process', 'json_ast.DznJsonAst.parse_element',
             'scoping.NamespaceIds.__post_init__', 'scoping.namespaceids_t']
ASSUMPTIONS = [
    'byte-level JSON decoding (orjson) is bypassed: documents are decoded Python values built from the '
    'JSON data model (dict/list/str/int/float/bool/None)',
    'faults are applied to one rich well-formed document that contains every element class; a fault is '
    '(node, kind) with kind in {delete the key, retag <class>, replace the value by one of 13 JSON '
    'values}; each path fixes the fault (solver-checked) and runs the real parser',
    'documented errors = DznJsonError and NamespaceIdsTypeError',
    'stub: json_ast.print (the parser\'s diagnostic output) has an empty body during symbolic runs',
]
OUTSIDE = ('more than two simultaneous faults, faults outside the replacement list, documents nested '
           'beyond the interpreter recursion limit, byte-level decoding errors')


def rich_doc() -> dict:
    items = leaf_items('A')
    return dg.root([
        items[11], items[12], items[10], items[7], items[9],
        dg.namespace(['N', 'M'], [items[0], items[2], items[3], items[5],
                                  dg.namespace(['K'], [items[15], items[13], 42])]),
    ], comment='// c')


DOC = rich_doc()
nativize_parser_layer()


def enumerate_nodes(doc) -> List[Tuple]:
    """Every addressable node as a path of keys/indices (root excluded)."""
    out = []

    def rec(node, path):
        if isinstance(node, dict):
            for k, v in node.items():
                out.append(path + (k,))
                rec(v, path + (k,))
        elif isinstance(node, list):
            for i, v in enumerate(node):
                out.append(path + (i,))
                rec(v, path + (i,))
    rec(doc, ())
    return out


NODES = enumerate_nodes(DOC)
REPLACEMENTS = [None, True, 0, -7, 3.5, '', 'x', 'in', 'void', [], {}, ['a', 'b'], [1], {'<class>': 'scope_name'},
                {'<class>': 'formals', 'elements': [None]}, [['x']], {'k': 'v'}]
RETAGS = ['root', 'namespace', 'component', 'interface', 'enum', 'port', 'formal', 'event', 'bogus', 7, None]
# fault kinds: 0 = delete, 1..len(RETAGS) = retag (only meaningful on dict nodes / '<class>' keys),
#              then replacements
NFAULT = 1 + len(RETAGS) + len(REPLACEMENTS)


def apply_fault(doc, node_i: int, fault: int):
    path = NODES[node_i]
    parent = doc
    for key in path[:-1]:
        parent = parent[key]
    last = path[-1]
    if fault == 0:
        if isinstance(parent, dict):
            del parent[last]
        else:
            parent.pop(last)
    elif fault <= len(RETAGS):
        tag = RETAGS[fault - 1]
        target = parent[last]
        if isinstance(target, dict):
            target['<class>'] = tag
        else:
            parent[last] = {'<class>': tag}
    else:
        parent[last] = copy.deepcopy(REPLACEMENTS[fault - 1 - len(RETAGS)])


def _parse_outcome(doc) -> bool:
    parser = DznJsonAst()
    parser._ast = doc  # pylint: disable=protected-access
    try:
        res = parser.process()
    except (DznJsonError, NamespaceIdsTypeError):
        return True
    return isinstance(res, ast.FileContents)


def _single(node_i: int, fault: int) -> bool:
    doc = copy.deepcopy(DOC)
    apply_fault(doc, node_i, fault)
    return _parse_outcome(doc)


def _double(n1: int, f1: int, n2: int, f2: int) -> bool:
    doc = copy.deepcopy(DOC)
    try:
        # apply the later node first so that the earlier path stays valid
        a, b = sorted([(n1, f1), (n2, f2)], reverse=True)
        apply_fault(doc, *a)
        apply_fault(doc, *b)
    except (KeyError, IndexError, TypeError):
        return True         # second fault addressed a node the first one removed: no document
    return _parse_outcome(doc)


_GOOD_FRESH = None


def _fault_then_good(node_i: int, fault: int) -> bool:
    """A parser object that was refused a malformed document is handed a well-formed one afterwards:
    no internal error, and the same result as a fresh parser gives."""
    global _GOOD_FRESH
    from props.parser_common import unparse
    if _GOOD_FRESH is None:
        _GOOD_FRESH = unparse(dg.parse(copy.deepcopy(DOC)))
    doc = copy.deepcopy(DOC)
    apply_fault(doc, node_i, fault)
    parser = DznJsonAst()
    parser._ast = doc  # pylint: disable=protected-access
    try:
        parser.process()
    except (DznJsonError, NamespaceIdsTypeError):
        pass
    parser._ast = copy.deepcopy(DOC)  # pylint: disable=protected-access
    res = parser.process()              # anything raised here escapes = failure
    return unparse(res) == _GOOD_FRESH


def h_fault_then_good(node_i: int, fault: int) -> bool:
    """Every single fault, followed by a well-formed document on the same parser object."""
    return run_native(_fault_then_good, pick(range(len(NODES)), node_i), pick(SMALL_FAULTS, fault))


def h_single_fault(node_i: int, fault: int) -> bool:
    """Every single fault at every node of the rich document."""
    return run_native(_single, pick(range(len(NODES)), node_i), pick(range(NFAULT), fault))


SMALL_FAULTS = [0, 9, 1 + len(RETAGS), 1 + len(RETAGS) + 6, 1 + len(RETAGS) + 9, 1 + len(RETAGS) + 10]


def h_double_fault(n1: int, f1: int, n2: int, f2: int) -> bool:
    """Two faults (delete / retag bogus / None / 'x' / [] / {}) at two nodes at most {W} apart in
    document order (same subtree)."""
    a = pick(range(len(NODES)), n1)
    b = pick(range(len(NODES)), n2)
    return run_native(_double, a, pick(SMALL_FAULTS, f1), b, pick(SMALL_FAULTS, f2))


def h_symbolic_string(node_i: int, s: str) -> bool:
    """Replace any string-valued node by an arbitrary (symbolic) string."""
    idx = pick(STR_NODES, node_i)
    doc = run_native(copy.deepcopy, DOC)
    path = NODES[idx]
    parent = doc
    for key in path[:-1]:
        parent = parent[key]
    parent[path[-1]] = s
    return _parse_outcome(doc)


def _str_nodes() -> List[int]:
    out = []
    for i, path in enumerate(NODES):
        node = DOC
        for key in path:
            node = node[key]
        if isinstance(node, str):
            out.append(i)
    return out


STR_NODES = _str_nodes()

DIRS = ['in', 'out']
REPLIES = [['void'], ['Res'], ['N', 'void'], ['bool']]
FDIRS = ['in', 'out', 'inout']


def _event_case(di: int, ri: int, nf: int, f0: int, f1: int) -> bool:
    fmls = [dg.formal(f'a{j}', ['T'], FDIRS[f]) for j, f in enumerate([f0, f1][:nf])]
    doc = dg.event('E', DIRS[di], REPLIES[ri], fmls)
    must_refuse = DIRS[di] == 'out' and (REPLIES[ri] != ['void'] or 'out' in [FDIRS[f] for f in [f0, f1][:nf]])
    try:
        evt = parse_event(doc)
    except DznJsonError:
        return must_refuse
    return (not must_refuse) and evt.name == 'E'


def h_event_rule(di: int, ri: int, nf: int, f0: int, f1: int) -> bool:
    """An out event with a non-void reply or with an out parameter is always refused (inout is
    allowed by the documented rule); everything else is accepted."""
    return run_native(_event_case, pick(range(2), di), pick(range(4), ri), pick(range(3), nf),
                      pick(range(3), f0), pick(range(3), f1))


def h_event_rule_wide(reply: str, direction: str, fdir: str) -> bool:
    """Same rule with symbolic reply identifier, event direction and formal direction strings."""
    doc = dg.event('E', direction, [reply], [dg.formal('a', ['T'], fdir)])
    try:
        evt = parse_event(doc)
    except (DznJsonError, NamespaceIdsTypeError):
        # legitimate refusals: bad identifier, unknown direction words, or the out-event rule
        return True
    # judged on the RESULT: whatever spelling was accepted, an out event never has a valued reply or
    # an out parameter, and only the exact words 'in' / 'out' / 'inout' are directions
    if evt.direction == ast.EventDirection.OUT:
        if evt.signature.type_name.value.items != ['void']:
            return False
        if any(f.direction == ast.FormalDirection.OUT for f in evt.signature.formals.elements):
            return False
    if direction not in ('in', 'out') or fdir not in ('in', 'out', 'inout'):
        return False
    return evt.direction == (ast.EventDirection.OUT if direction == 'out' else ast.EventDirection.IN)


DIR_WORDS = ['in', 'out', 'IN', 'OUT', 'Out', 'In', 'oUt', 'inout', 'InOut', '', ' out', 'out ', 'Out\n', 'provides']


def _event_words_case(di: int, fi: int, ri: int) -> bool:
    return h_event_rule_wide(['void', 'Res', 'Void', 'VOID'][ri], DIR_WORDS[di], DIR_WORDS[fi])


def h_event_words(di: int, fi: int, ri: int) -> bool:
    """Direction words in every letter case / with stray blanks, for the event and for its formal."""
    return run_native(_event_words_case, pick(range(len(DIR_WORDS)), di), pick(range(len(DIR_WORDS)), fi),
                      pick(range(4), ri))


SPECS = [
    H('h_single_fault', 'deep', pre=['0 <= node_i < %d' % len(NODES), '0 <= fault < %d' % NFAULT],
      quick=dict(ct=280, pt=30), thorough=dict(ct=900, pt=30),
      shards=lambda p: [f'node_i % 16 == {i}' for i in range(16)],
      bounds='every single fault: %d nodes x (delete + %d retags + %d replacement values)'
             % (len(NODES), len(RETAGS), len(REPLACEMENTS))),
    H('h_fault_then_good', 'deep', pre=['0 <= node_i < %d' % len(NODES), '0 <= fault < 6'],
      quick=dict(ct=280, pt=30), thorough=dict(ct=900, pt=30),
      shards=lambda p: [f'node_i % 8 == {i}' for i in range(8)],
      bounds='%d nodes x 6 fault kinds, each followed by a well-formed document on the same parser object'
             % len(NODES)),
    H('h_double_fault', 'deep',
      pre=['0 <= n1 < %d' % len(NODES), 'n1 < n2 <= n1 + {W}', 'n2 < %d' % len(NODES),
           '0 <= f1 < %d' % len(SMALL_FAULTS), '0 <= f2 < %d' % len(SMALL_FAULTS)],
      quick=dict(W=2, ct=280, pt=30), thorough=dict(W=25, ct=1700, pt=30),
      shards=lambda p: [f'n1 % 16 == {i}' for i in range(16)],
      bounds='two faults from a 6-fault list at two nodes at most {W} apart in document order'),
    H('h_symbolic_string', 'wide', pre=['0 <= node_i < %d' % len(STR_NODES), 'len(s) <= {N}'],
      quick=dict(N=1, ct=280, pt=30), thorough=dict(N=3, ct=1700, pt=60),
      shards=lambda p: [f'node_i % 16 == {i}' for i in range(16)],
      bounds='each of the %d string-valued nodes replaced by an unconstrained unicode str, len <= {N}'
             % len(STR_NODES)),
    H('h_event_rule', 'deep', pre=['0 <= di < 2', '0 <= ri < 4', '0 <= nf <= 2', '0 <= f0 < 3', '0 <= f1 < 3'],
      quick=dict(ct=200, pt=30), thorough=dict(ct=300, pt=30),
      bounds='event direction x 4 reply types x <= 2 formals of every direction'),
    H('h_event_words', 'deep', pre=['0 <= di < %d' % len(DIR_WORDS), '0 <= fi < %d' % len(DIR_WORDS), '0 <= ri < 4'],
      quick=dict(ct=200, pt=30), thorough=dict(ct=300, pt=30),
      bounds='%d direction spellings (letter case, blanks, trailing newline, foreign words) for event and '
             'formal x 4 reply spellings' % len(DIR_WORDS)),
    H('h_event_rule_wide', 'wide', pre=['len(reply) <= {N}', 'len(direction) <= 3', 'len(fdir) <= 3'],
      quick=dict(N=4, ct=250, pt=30), thorough=dict(N=5, ct=1500, pt=60),
      bounds='symbolic reply identifier (len <= {N}), event direction and formal direction strings '
             '(len <= 3)'),
]
