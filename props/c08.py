"""C08 — output is a pure function of model and configuration.

Real code: PortsSemanticsCfg.__str__/match, PortsCfg.__str__/match, Builder.build incl.
_create_configuration_overview/_create_final_port_overview, GeneratedContent.hash.

The interpreter's hash seed and the insertion order of sets influence a program only through the
iteration order of set/dict.  That order is made an explicit solver-chosen permutation (OrderedSet);
a counterexample is replayed in child interpreters started with different PYTHONHASHSEED values.
"""
import hashlib
import json
import os
import subprocess
import sys
from typing import Dict, List
from vf import realcode  # noqa: F401
from vf.spec import H, pick
from vf import docgen as dg, fast

from dznpy.adv_shell import Builder
from dznpy.adv_shell.common import Configuration, FacilitiesOrigin
from dznpy.adv_shell.port_selection import PortSelect, PortWildcard, PortsSemanticsCfg, PortsCfg
from dznpy.scoping import ns_ids_t
from dznpy.text_gen import GeneratedContent

PROPERTY = 'C08'
LEVEL = 'model_checking'
FUNCTIONS = ['port_selection.PortsSemanticsCfg.__str__', 'port_selection.PortsSemanticsCfg.match',
             'port_selection.PortsCfg.__str__', 'port_selection.PortsCfg.match',
             'adv_shell.Builder.build', 'adv_shell.Builder._create_configuration_overview',
             'adv_shell.Builder._create_final_port_overview', 'text_gen.GeneratedContent.hash']
ASSUMPTIONS = [
    'hash seed / insertion order act on the program only through set and dict iteration order; '
    'the iteration order of every explicit name set is made an explicit, solver-chosen permutation '
    '(set subclass with the given iteration order; equality/hash/membership unchanged)',
    'stub: the name `set` inside dznpy.ast_view and dznpy.adv_shell.port_selection is bound to a set '
    'subclass with solver-chosen iteration order during the build harness (environment nondeterminism)',
    'counterexamples are confirmed by child interpreters with PYTHONHASHSEED=0..31 (differing output '
    'bytes between two seeds reproduce the violation)',
    'MD5 clause: hashlib is a C boundary (CrossHair realises its argument), so the hash identity is '
    'checked on realised witness strings only against an independent RFC 1321 implementation in this '
    'file — exploration, not a bounded proof',
    '"regardless of the process" reduces to the absence of process state, which C12 checks',
]
OUTSIDE = ('name sets of more than 3 names, models other than the fixed 3+3-port component, the MD5 '
           'identity beyond the explored witnesses')

NAMES_R = ['cord', 'heater', 'led']
NAMES_P = ['api', 'ctl', 'dbg']
PERMS = [(0, 1, 2), (0, 2, 1), (1, 0, 2), (1, 2, 0), (2, 0, 1), (2, 1, 0)]

_FC = dg.parse(dg.root([
    dg.interface(['I'], [dg.event('e'), dg.event('o', 'out')]),
    dg.component(['C'], [dg.port(n, ['I'], 'provides') for n in NAMES_P] +
                 [dg.port(n, ['I'], 'requires') for n in NAMES_R])]))


class OrderedSet(set):
    """A set of strings whose ITERATION ORDER is given explicitly — the one degree of freedom the
    hash seed and the insertion history have over a set.  Equality, hashing, membership, union and
    difference are inherited unchanged."""

    def __init__(self, items, order):
        super().__init__(items)
        self._order = [items[i] for i in order]

    def __iter__(self):
        return iter(list(self._order))


# port names that differ only in letter case (not in the first letter): a case-insensitive ordering
# of such names is not a total order
NAMES_C = ['auxLed', 'auxLED', 'auxled']
_FC2 = dg.parse(dg.root([
    dg.interface(['I'], [dg.event('e'), dg.event('o', 'out')]),
    dg.component(['C'], [dg.port('api', ['I'], 'provides')] + [dg.port(n, ['I'], 'requires') for n in NAMES_C])]))


def _ordered_set(names: List[str], perm) -> set:
    return OrderedSet(list(names), list(perm))


ITER_MODE = [0]


class PermSet(set):
    """Stand-in for the builtin `set` inside dznpy.ast_view / port_selection during the build harness:
    a real set that additionally remembers insertion order and iterates in insertion order (mode 0),
    reversed (mode 1) or rotated by one (mode 2) — the iteration-order nondeterminism of the
    interpreter as an explicit, solver-chosen variable."""

    def __init__(self, *a):
        super().__init__(*a)
        self._ins = list(super().__iter__())

    def add(self, item):
        if item not in self:
            self._ins.append(item)
        super().add(item)

    def __iter__(self):
        items = [x for x in self._ins if set.__contains__(self, x)]
        if ITER_MODE[0] == 1:
            items.reverse()
        elif ITER_MODE[0] == 2 and items:
            items = items[1:] + items[:1]
        return iter(items)


def _install_permset():
    from dznpy import ast_view
    from dznpy.adv_shell import port_selection
    ast_view.set = PermSet
    port_selection.set = PermSet


def make_cfg(template: int, perm, plain: bool = False) -> PortsCfg:
    """Equal configurations whose explicit name sets are constructed in the order `perm`."""
    def _ordered_set(names, order):      # plain: a real set filled in the given insertion order
        if not plain:
            return OrderedSet(list(names), list(order))
        out = set()
        for i in order:
            out.add(names[i])
        return out

    none, rem, all_ = PortSelect(PortWildcard.NONE), PortSelect(PortWildcard.REMAINING), \
        PortSelect(PortWildcard.ALL)
    if template == 0:     # requires: all three named STS
        return PortsCfg(PortsSemanticsCfg(none, all_),
                        PortsSemanticsCfg(PortSelect(_ordered_set(NAMES_R, perm)), rem))
    if template == 1:     # requires: all three named MTS
        return PortsCfg(PortsSemanticsCfg(all_, none),
                        PortsSemanticsCfg(none, PortSelect(_ordered_set(NAMES_R, perm))))
    if template == 2:     # requires: two named STS (order from perm), one named MTS
        two = [NAMES_R[i] for i in perm[:2]]
        return PortsCfg(PortsSemanticsCfg(none, all_),
                        PortsSemanticsCfg(PortSelect(_ordered_set(two, range(2))),
                                          PortSelect({NAMES_R[perm[2]]})))
    if template == 5:     # case-variant names, all three named STS
        return PortsCfg(PortsSemanticsCfg(none, all_),
                        PortsSemanticsCfg(PortSelect(_ordered_set(NAMES_C, perm)), rem))
    if template == 6:     # case-variant names: two named MTS, one STS
        two = [NAMES_C[i] for i in perm[:2]]
        return PortsCfg(PortsSemanticsCfg(all_, none),
                        PortsSemanticsCfg(PortSelect({NAMES_C[perm[2]]}),
                                          PortSelect(_ordered_set(two, range(2)))))
    if template == 3:     # provides: all three named MTS
        return PortsCfg(PortsSemanticsCfg(none, PortSelect(_ordered_set(NAMES_P, perm))),
                        PortsSemanticsCfg(all_, none))
    # provides named STS, requires named MTS, both permuted
    return PortsCfg(PortsSemanticsCfg(PortSelect(_ordered_set(NAMES_P, perm)), none),
                    PortsSemanticsCfg(rem, PortSelect(_ordered_set(NAMES_R, perm[::-1]))))


def _norm2(template: int, perm):
    """For template 2 the two configurations must name the same ports: normalise the reference."""
    if template in (2, 6):
        a, b = sorted(perm[:2])
        return (a, b, perm[2])
    return (0, 1, 2)


def h_cfg_text(template: int, pi: int) -> bool:
    """Equal configurations built in different set orders render and match identically."""
    perm = pick(PERMS, pi)
    a = make_cfg(template, _norm2(template, perm))
    b = make_cfg(template, perm)
    if a != b:
        return False
    if str(a) != str(b) or str(a.requires) != str(b.requires) or str(a.provides) != str(b.provides):
        return False
    rnames, pnames = (NAMES_C, ['api']) if template >= 5 else (NAMES_R, NAMES_P)
    ma = a.match(set(pnames), set(rnames))
    mb = b.match(_ordered_set(pnames, tuple(reversed(range(len(pnames))))), _ordered_set(rnames, (1, 2, 0)))
    if list(ma.value.items()) != list(ma.value.items()):
        return False
    return ma == mb


fast.nativize_text_layer()


def _build(ports_cfg: PortsCfg, template: int = 0, builder=None, prefix=None):
    fc = _FC2 if template >= 5 else _FC
    cfg = Configuration('M.dzn', fc, 'Shell', ns_ids_t('C'), ports_cfg, FacilitiesOrigin.CREATE, '(c)',
                        support_files_ns_prefix=ns_ids_t(prefix) if prefix else None)
    return [(f.filename, f.contents, f.hash) for f in (builder or Builder()).build(cfg).files]


def h_late_set(template: int, k: int) -> bool:
    """A name set that is completed AFTER it was handed to PortSelect (the selection keeps a reference
    to the caller's set): at build time the configuration equals the one built from the complete set,
    so text and files must be equal too."""
    k = pick(range(1, 3), k - 1)
    template = pick(range(7), template)
    full = make_cfg(template, (0, 1, 2), plain=True)
    # the same configuration, but every explicit set holds only its first k names while the
    # selection objects are constructed ...
    pending = []

    def partial(sel: PortSelect) -> PortSelect:
        if isinstance(sel.value, set) and len(sel.value) > k:
            names = sorted(sel.value)
            start = set(names[:k])
            pending.append((start, names[k:]))
            return PortSelect(start)
        return sel

    try:
        late = PortsCfg(PortsSemanticsCfg(partial(full.provides.sts), partial(full.provides.mts)),
                        PortsSemanticsCfg(partial(full.requires.sts), partial(full.requires.mts)))
    except Exception:  # the partial configuration may be invalid on its own (e.g. equal selections)
        return True
    str(late)                                # rendering the incomplete configuration is legitimate
    for target, rest in pending:
        for n in rest:
            target.add(n)                    # ... and the caller completes its sets afterwards
    if late != full:
        return False
    return str(late) == str(full) and _build(late, template) == _build(full, template)


def h_environment(template: int, which: int) -> bool:
    """The file system around the process is not an input: the source file named in the configuration
    may be absent, a regular file, or a symbolic link to a differently named file."""
    from vf.fast import run_native
    return run_native(_environment_case, pick(range(7), template), pick(range(3), which))


def _environment_case(template: int, which: int) -> bool:
    import os
    import tempfile
    import shutil
    ref = _build(make_cfg(template, (0, 1, 2)), template)
    tmp = tempfile.mkdtemp(prefix='vf_c08_env_')
    old = os.getcwd()
    try:
        os.chdir(tmp)
        if which == 1:
            with open('M.dzn', 'w', encoding='utf-8') as fh:
                fh.write('// model')
        elif which == 2:
            os.makedirs('store')
            with open(os.path.join('store', '3f9a-Other.dzn'), 'w', encoding='utf-8') as fh:
                fh.write('// model')
            os.symlink(os.path.join('store', '3f9a-Other.dzn'), 'M.dzn')
        return _build(make_cfg(template, (0, 1, 2)), template) == ref
    finally:
        os.chdir(old)
        shutil.rmtree(tmp, ignore_errors=True)


PREFIXES = [None, 'My.Sup', 'Other']


def h_builder_reuse(ta: int, tb: int, pa: int, pb: int) -> bool:
    """Output depends on model and configuration only: a Builder that built configuration A before
    gives for configuration B exactly what a fresh Builder gives."""
    ta, tb = pick(range(7), ta), pick(range(7), tb)
    pra, prb = pick(PREFIXES, pa), pick(PREFIXES, pb)
    builder = Builder()
    _build(make_cfg(ta, (0, 1, 2)), ta, builder, pra)
    got = _build(make_cfg(tb, (0, 1, 2)), tb, builder, prb)
    return got == _build(make_cfg(tb, (0, 1, 2)), tb, None, prb)


def h_build_order(template: int, pi: int, mode: int) -> bool:
    """Whole build: byte-identical names, contents and hashes for equal configurations, whatever the
    iteration order of the explicit name sets (perm) and of the sets the library creates itself
    (mode)."""
    perm = pick(PERMS, pi)
    _install_permset()
    ITER_MODE[0] = 0
    ref = _build(make_cfg(template, _norm2(template, perm)), template)
    ITER_MODE[0] = pick([0, 1, 2], mode)
    try:
        return ref == _build(make_cfg(template, perm), template)
    finally:
        ITER_MODE[0] = 0


# ---- replay through real hash seeds ----------------------------------------------------------------
_CHILD = r'''
import sys, json, hashlib
sys.path.insert(0, %(verif)r)
from props import c08
tpl, perm = %(tpl)d, %(perm)r
cfg = c08.make_cfg(tpl, perm, plain=True)
files = c08._build(cfg, tpl)
print(json.dumps({'str': str(cfg), 'digest': hashlib.sha256(repr(files).encode()).hexdigest()}))
'''


def seed_sweep_replay(call: str) -> Dict:
    """Reproduce an order dependence on the real interpreter: the same configuration under
    PYTHONHASHSEED=0..31 (and both construction orders) must give identical text and files."""
    import ast as pyast
    node = pyast.parse(call, mode='eval').body
    args = [pyast.literal_eval(a) for a in node.args]
    template, pi = args[0], args[1]
    perm = PERMS[pi]
    seen = {}
    verif = os.path.dirname(os.path.dirname(os.path.abspath(__file__)))
    for seed in range(32):
        for prm in (perm, _norm2(template, perm)):
            env = dict(os.environ, PYTHONHASHSEED=str(seed), PYTHONPATH=verif)
            src = _CHILD % {'verif': verif, 'tpl': template, 'perm': tuple(prm)}
            proc = subprocess.run([sys.executable, '-c', src], capture_output=True, text=True, env=env,
                                  timeout=120, check=False)
            if proc.returncode != 0:
                return {'ok': None, 'exc': 'child failed: ' + proc.stderr[-300:]}
            out = json.loads(proc.stdout.strip().splitlines()[-1])
            seen.setdefault((out['str'], out['digest']), (seed, tuple(prm)))
    if len(seen) > 1:
        items = list(seen.items())
        return {'ok': False,
                'exc': f'{len(seen)} different outputs for one configuration across hash seeds / set '
                       f'construction orders, e.g. seed={items[0][1][0]}: {items[0][0][0]!r} vs '
                       f'seed={items[1][1][0]}: {items[1][0][0]!r}'}
    return {'ok': True, 'exc': None}


# ---- family sweep over real hash seeds (validation of the "only through set/dict iteration of the
# configuration" assumption: sets the library builds internally are outside the permutation model) -------
_FAMILY_CHILD = r'''
import sys, json, hashlib
sys.path.insert(0, %(verif)r)
from vf import family as fam
from dznpy.adv_shell import Builder
out = {}
for i, (case, pc) in enumerate(fam.VALID):
    res = Builder().build(fam.make_configuration(case, pc))
    out[i] = hashlib.sha256(repr([(f.filename, f.contents, f.hash) for f in res.files]).encode()).hexdigest()
print('@@' + json.dumps(out))
'''


def _family_digests(seed: int) -> Dict[str, str]:
    verif = os.path.dirname(os.path.dirname(os.path.abspath(__file__)))
    env = dict(os.environ, PYTHONHASHSEED=str(seed), PYTHONPATH=verif)
    proc = subprocess.run([sys.executable, '-c', _FAMILY_CHILD % {'verif': verif}], capture_output=True, text=True,
                          env=env, timeout=900, check=False)
    line = next((ln for ln in proc.stdout.splitlines() if ln.startswith('@@')), None)
    if line is None:
        raise RuntimeError('family build under PYTHONHASHSEED=%d failed: %s' % (seed, proc.stderr[-300:]))
    return json.loads(line[2:])


def h_seed_pair(ci: int, seed_a: int, seed_b: int) -> bool:
    """Family case ci built in two fresh interpreters under two hash seeds gives identical files."""
    return _family_digests(seed_a)[str(ci)] == _family_digests(seed_b)[str(ci)]


def extra(tier, seed, scratch, log):
    from concurrent.futures import ThreadPoolExecutor
    from vf.spec import Ob
    from vf import family as fam
    seeds = list(range(8 if tier == 'quick' else 32))
    ob = Ob(name='family_hash_seed_sweep', engine='native', kind='validation', claim=False, verdict='confirmed',
            module='props.c08', bounds='all %d valid family cases x PYTHONHASHSEED=0..%d, one fresh interpreter '
            'per seed' % (len(fam.VALID), seeds[-1]))
    try:
        with ThreadPoolExecutor(max_workers=8) as pool:
            digs = list(pool.map(_family_digests, seeds))
    except Exception as exc:  # pylint: disable=broad-except
        ob.verdict, ob.detail = 'inconclusive', str(exc)[:300]
        return [ob]
    for ci in sorted(digs[0], key=int):
        for k, d in enumerate(digs[1:], 1):
            if d[ci] != digs[0][ci]:
                ob.verdict = 'refuted'
                ob.call = f'h_seed_pair({ci}, {seeds[0]}, {seeds[k]})'
                ob.detail = (f'family case {fam.VALID[int(ci)][0].label}: the generated files differ between '
                             f'PYTHONHASHSEED={seeds[0]} and {seeds[k]}')
                log('[native] ' + ob.detail)
                return [ob]
    ob.paths = ob.validated = len(digs[0]) * len(seeds)
    ob.detail = f'{len(digs[0])} cases x {len(seeds)} seeds: identical files'
    log('[native] family_hash_seed_sweep: ' + ob.detail)
    return [ob]


# ---- MD5 clause (exploration) -----------------------------------------------------------------------

def _md5_ref(data: bytes) -> str:
    """Independent MD5 (RFC 1321)."""
    import math
    s = [7, 12, 17, 22] * 4 + [5, 9, 14, 20] * 4 + [4, 11, 16, 23] * 4 + [6, 10, 15, 21] * 4
    k = [int(abs(math.sin(i + 1)) * 2 ** 32) & 0xFFFFFFFF for i in range(64)]
    a0, b0, c0, d0 = 0x67452301, 0xefcdab89, 0x98badcfe, 0x10325476
    msg = bytearray(data)
    bitlen = (8 * len(data)) & 0xFFFFFFFFFFFFFFFF
    msg.append(0x80)
    while len(msg) % 64 != 56:
        msg.append(0)
    msg += bitlen.to_bytes(8, 'little')
    for off in range(0, len(msg), 64):
        m = [int.from_bytes(msg[off + 4 * i: off + 4 * i + 4], 'little') for i in range(16)]
        a, b, c, d = a0, b0, c0, d0
        for i in range(64):
            if i < 16:
                f, g = (b & c) | (~b & d), i
            elif i < 32:
                f, g = (d & b) | (~d & c), (5 * i + 1) % 16
            elif i < 48:
                f, g = b ^ c ^ d, (3 * i + 5) % 16
            else:
                f, g = c ^ (b | ~d), (7 * i) % 16
            f = (f + a + k[i] + m[g]) & 0xFFFFFFFF
            a, d, c = d, c, b
            b = (b + ((f << s[i]) | (f >> (32 - s[i])))) & 0xFFFFFFFF
        a0, b0, c0, d0 = (a0 + a) & 0xFFFFFFFF, (b0 + b) & 0xFFFFFFFF, (c0 + c) & 0xFFFFFFFF, \
            (d0 + d) & 0xFFFFFFFF
    return b''.join(x.to_bytes(4, 'little') for x in (a0, b0, c0, d0)).hex()


def h_hash(name: str, contents: str) -> bool:
    """GeneratedContent.hash is the lower-case hex MD5 of the UTF-8 contents (file name irrelevant)."""
    try:
        raw = contents.encode('utf-8')
    except UnicodeEncodeError:
        return True                      # lone surrogates have no UTF-8 form: outside the statement
    gc = GeneratedContent(name, contents)
    return gc.hash == _md5_ref(raw) and gc.hash == GeneratedContent('other', contents).hash


SPECS = [
    H('h_cfg_text', 'deep', pre=['0 <= template <= 6', '0 <= pi < 6'],
      quick=dict(ct=200, pt=30), thorough=dict(ct=600, pt=60), replay_fn='seed_sweep_replay',
      bounds='7 configuration templates with explicit sets of 2-3 port names (incl. names differing only in letter '
             'case) x all 6 construction orders '
             '(set iteration order = symbolic permutation)'),
    H('h_build_order', 'deep', pre=['0 <= template <= 6', '0 <= pi < 6', '0 <= mode <= 2'],
      quick=dict(ct=280, pt=120), thorough=dict(ct=900, pt=200), replay_fn='seed_sweep_replay',
      shards=lambda p: [f'template == {t}' for t in range(7)],
      bounds='full Builder.build on a 3+3-port component, 7 templates x 6 iteration orders of the explicit '
             'sets x 3 iteration orders of library-created sets'),
    H('h_late_set', 'deep', pre=['0 <= template <= 6', '1 <= k <= 2'],
      quick=dict(ct=200, pt=120), thorough=dict(ct=600, pt=200),
      bounds='7 templates: explicit name sets completed after construction of the selection (1 or 2 names first)'),
    H('h_environment', 'deep', pre=['0 <= template <= 6', '0 <= which <= 2'],
      quick=dict(ct=200, pt=120), thorough=dict(ct=600, pt=200),
      bounds='7 templates x source file absent / regular file / symlink to a differently named file in the cwd'),
    H('h_builder_reuse', 'deep', pre=['0 <= ta < 7', '0 <= tb < 7', '0 <= pa < 3', '0 <= pb < 3'],
      quick=dict(ct=280, pt=120), thorough=dict(ct=900, pt=200),
      shards=lambda p: [f'ta == {t}' for t in range(7)],
      bounds='one Builder instance: every ordered pair of 7 templates x 3 support-namespace prefixes each'),
    H('h_hash', 'hunt', pre=['len(name) <= 2', 'len(contents) <= {N}'],
      quick=dict(N=3, ct=60, pt=20), thorough=dict(N=80, ct=600, pt=30),
      bounds='MD5 identity on realised witness strings (len <= {N}); exploration only'),
]
