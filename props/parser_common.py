"""Shared pieces for the parser properties C05 / C15 / C16: an independent walker over a decoded
Dezyne JSON document, an unparser of the real parser's FileContents, and document libraries."""
from typing import Any, Dict, List, Tuple
from vf import realcode  # noqa: F401
from vf import docgen as dg

from dznpy import ast

CONTAINERS = ['components', 'enums', 'externs', 'filenames', 'foreigns', 'imports', 'interfaces',
              'subints', 'systems']


# ---- independent walker over the DOCUMENT -------------------------------------------------------

def _ids(node) -> List[str]:
    return list(node['ids'])


def _formals(node) -> List[Tuple]:
    return [(f['name'], _ids(f['type_name']), f['direction']) for f in node['elements']]


def _ports(node) -> List[Tuple]:
    return [(p['name'], _ids(p['type_name']), p['direction'], _formals(p['formals']),
             p.get('injected?') == 'injected') for p in node['elements']]


def _events(node) -> List[Tuple]:
    return [(e['name'], e['direction'], _ids(e['signature']['type_name']),
             _formals(e['signature']['formals'])) for e in node['elements']]


def _endpoint(node) -> Tuple:
    return (node['port_name'], node.get('instance_name'))


def ref_walk(doc) -> Dict[str, List]:
    """What a faithful parser must deliver, per container, in document order."""
    out: Dict[str, List] = {c: [] for c in CONTAINERS}

    def walk(elements, prefix: List[str]):
        for el in elements:
            if not isinstance(el, dict):
                continue
            cls = el.get('<class>')
            if cls == 'namespace':
                walk(el['elements'], prefix + _ids(el['name']))
            elif cls == 'component':
                out['components'].append((prefix + _ids(el['name']), prefix, _ids(el['name']),
                                          _ports(el['ports'])))
            elif cls == 'foreign':
                out['foreigns'].append((prefix + _ids(el['name']), prefix, _ids(el['name']),
                                        _ports(el['ports'])))
            elif cls == 'system':
                out['systems'].append((prefix + _ids(el['name']), prefix, _ids(el['name']),
                                       _ports(el['ports']),
                                       [(i['name'], _ids(i['type_name']))
                                        for i in el['instances']['elements']],
                                       [(_endpoint(b['left']), _endpoint(b['right']))
                                        for b in el['bindings']['elements']]))
            elif cls == 'enum':
                out['enums'].append((prefix + _ids(el['name']), prefix, _ids(el['name']),
                                     list(el['fields']['elements'])))
            elif cls == 'subint':
                out['subints'].append((prefix + _ids(el['name']), prefix, _ids(el['name']),
                                       (el['range']['from'], el['range']['to'])))
            elif cls == 'extern':
                out['externs'].append((prefix + _ids(el['name']), prefix, _ids(el['name']),
                                       el['value']['value']))
            elif cls == 'import':
                out['imports'].append(el['name'])
            elif cls == 'file-name':
                out['filenames'].append(el['name'])
            elif cls == 'interface':
                fqn = prefix + _ids(el['name'])
                nested = []
                for t in el['types']['elements']:
                    if t.get('<class>') == 'enum':
                        rec = (fqn + _ids(t['name']), fqn, _ids(t['name']), list(t['fields']['elements']))
                        out['enums'].append(rec)
                        nested.append(('enum', rec))
                    elif t.get('<class>') == 'subint':
                        rec = (fqn + _ids(t['name']), fqn, _ids(t['name']),
                               (t['range']['from'], t['range']['to']))
                        out['subints'].append(rec)
                        nested.append(('subint', rec))
                out['interfaces'].append((fqn, prefix, _ids(el['name']), _events(el['events']), nested))
            # unknown classes: skipped
    walk(doc['elements'], [])
    return out


# ---- unparser of the parser's RESULT --------------------------------------------------------------

def _u_formals(formals: ast.Formals) -> List[Tuple]:
    return [(f.name, list(f.type_name.value.items),
             {ast.FormalDirection.IN: 'in', ast.FormalDirection.OUT: 'out',
              ast.FormalDirection.INOUT: 'inout'}[f.direction]) for f in formals.elements]


def _u_ports(ports: ast.Ports) -> List[Tuple]:
    return [(p.name, list(p.type_name.value.items),
             'provides' if p.direction == ast.PortDirection.PROVIDES else 'requires',
             _u_formals(p.formals), p.injected.value) for p in ports.elements]


def _u_events(events: ast.Events) -> List[Tuple]:
    return [(e.name, 'in' if e.direction == ast.EventDirection.IN else 'out',
             list(e.signature.type_name.value.items), _u_formals(e.signature.formals))
            for e in events.elements]


def _base(d) -> Tuple:
    return (list(d.fqn.items), list(d.parent_ns.fqn.items), list(d.name.value.items))


def unparse(fc: ast.FileContents) -> Dict[str, List]:
    out: Dict[str, List] = {c: [] for c in CONTAINERS}
    for c in fc.components:
        out['components'].append(_base(c) + (_u_ports(c.ports),))
    for c in fc.foreigns:
        out['foreigns'].append(_base(c) + (_u_ports(c.ports),))
    for s in fc.systems:
        out['systems'].append(_base(s) + (_u_ports(s.ports),
                                          [(i.name, list(i.type_name.value.items))
                                           for i in s.instances.elements],
                                          [((b.left.port_name, b.left.instance_name),
                                            (b.right.port_name, b.right.instance_name))
                                           for b in s.bindings.elements]))
    for e in fc.enums:
        out['enums'].append(_base(e) + (list(e.fields.elements),))
    for s in fc.subints:
        out['subints'].append(_base(s) + ((s.range.from_int, s.range.to_int),))
    for e in fc.externs:
        out['externs'].append(_base(e) + (e.value.value,))
    for i in fc.imports:
        out['imports'].append(i.name)
    for f in fc.filenames:
        out['filenames'].append(f.name)
    for i in fc.interfaces:
        nested = []
        for t in i.types.elements:
            if isinstance(t, ast.Enum):
                nested.append(('enum', _base(t) + (list(t.fields.elements),)))
            else:
                nested.append(('subint', _base(t) + ((t.range.from_int, t.range.to_int),)))
        if list(i.ns_trail.fqn.items) != list(i.fqn.items):
            nested.append(('BAD-ns_trail', list(i.ns_trail.fqn.items)))
        out['interfaces'].append(_base(i) + (_u_events(i.events), nested))
    return out


# ---- item library for generated documents -----------------------------------------------------------

def leaf_items(name: str) -> List[Any]:
    """One declaration of every kind, all called `name` (plus things a parser must skip)."""
    n = [name]
    return [
        dg.component(n, [dg.port('p', ['I'], 'provides'), dg.port('r', ['N', 'I'], 'requires', True)]),
        dg.component(n, []),
        dg.foreign(n, [dg.port('q', ['I'], 'provides')]),
        dg.system(n, [dg.port('p', ['I'], 'provides')], [dg.instance('i1', ['A']), dg.instance('i2', ['N', 'B'])],
                  [dg.binding(dg.endpoint('p'), dg.endpoint('p', 'i1')),
                   dg.binding(dg.endpoint('r', 'i1'), dg.endpoint('p', 'i2'))]),
        dg.system(n),
        dg.interface(n, [dg.event('e', 'in', ['Res'], [dg.formal('a', ['T']), dg.formal('b', ['N', 'T'], 'out'),
                                                       dg.formal('c', ['T'], 'inout')]),
                         dg.event('o', 'out', fmls=[dg.formal('x', ['T'])])],
                     types=[dg.enum(['Res'], ['Ok', 'Nok']), dg.subint(['Sm'], 0, 7), dg.enum([name], ['Z'])]),
        dg.interface(n),
        dg.enum(n, ['A', 'B', 'C']),
        dg.enum(n, []),
        dg.subint(n, -1, 1),
        dg.extern(n, 'std::map<int, int>'),
        dg.import_(name + '.dzn'),
        dg.filename('./' + name + '.dzn'),
        {'<class>': 'bogus', 'name': dg.sn(name)},          # unknown class: skipped
        42,                                                   # non-dict element: skipped
        dg.interface(n, [], types=[{'<class>': 'other-type'}, dg.subint(['S2'], 1, 2)]),
    ]


def build_item_library(names=('A', 'B')) -> List[Any]:
    """Root-level items: leaves, and namespaces (1-2 id names, nested to depth 3, re-openable)
    holding 0..2 children."""
    leaves = []
    for nm in names:
        leaves += leaf_items(nm)
    items = list(leaves)
    small = [leaves[0], leaves[5], leaves[7], leaves[10], leaves[13], leaves[len(leaf_items('A')) + 5]]
    for ns_name in (['N'], ['N', 'M'], ['A']):
        items.append(dg.namespace(ns_name, []))
        for child in small:
            items.append(dg.namespace(ns_name, [child]))
        items.append(dg.namespace(ns_name, [small[0], small[2]]))
        items.append(dg.namespace(ns_name, [small[1], dg.namespace(['M'], [small[1]])]))
        items.append(dg.namespace(ns_name, [dg.namespace(['M'], [dg.namespace(['N', 'A'], [small[2], small[0]])]),
                                            small[3]]))
        items.append(dg.namespace(ns_name, [dg.namespace(['M'], []), dg.namespace(['M'], [small[4], small[5]])]))
    return items


ITEMS = build_item_library()
