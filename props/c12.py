"""C12 — building never alters its inputs and is independent of earlier builds.

Real code: Builder.build and everything below it; support_files.*.create_header.

Histories are replaced by ONE step plus an invariant.  Invariant: no module-level or class-level
state of any dznpy module differs from its value before the step.  Step (from an arbitrary case of
the family, valid or faulty): after build() — returning or raising — the deep structural snapshot of
the parsed model and of the configuration is unchanged, the invariant holds again, a second build
on the same objects gives the same outcome, and the result of a second Builder-instance-sharing
build equals the one of a fresh Builder.  Together with determinism (C08) this gives independence
from any finite history by induction; the step is what the solver explores (over all cases and all
ordered pairs of cases).
"""
import dataclasses
import enum
import sys
import types
from typing import Any, List, Tuple
from vf import realcode  # noqa: F401
from vf.spec import H, pick
from vf.fast import run_native
from vf import family as fam
from props import c13

from dznpy.adv_shell import Builder
from dznpy.support_files import strict_port, ilog, misc_utils, meta_helpers, multi_client_selector, \
    mutex_wrapped
from dznpy.scoping import ns_ids_t, NamespaceTree

PROPERTY = 'C12'
LEVEL = 'model_checking'
FUNCTIONS = ['adv_shell.Builder.build (and everything below)', 'support_files.*.create_header',
             'scoping.NamespaceIds.__add__/__iadd__', 'scoping.scope_resolution_order',
             'text_gen.TextBlock.lines setter', 'cpp_gen.Comment.__str__']
ASSUMPTIONS = [
    'inductive argument: (no dznpy module/class state changes) + (inputs structurally unchanged) + '
    '(output is a function of the inputs, C08) => the files of a build do not depend on the builds before '
    'it; only the step is explored, over all %d valid cases, their single-fault variations and all ordered '
    'pairs of valid cases on one Builder instance' % len(fam.VALID),
    'structural snapshot = recursive dump of dataclass fields, lists, dicts, sets, enums and the '
    'NamespaceTree parent chain (object identity is not part of the observable state)',
    'process state outside dznpy modules (e.g. CPython caches) is not observed directly; it is covered '
    'indirectly: every successful step and every pair is compared with the same build done as the first and '
    'only build of a fresh interpreter (one child process per case, random hash seed)',
]
OUTSIDE = 'cases outside the family; sequences are covered by induction, not enumerated beyond pairs'


def snap(obj: Any, depth: int = 0) -> Any:
    """Deep structural snapshot."""
    if depth > 60:
        return '<deep>'
    if obj is None or isinstance(obj, (str, int, float, bool, bytes)):
        return obj
    if isinstance(obj, enum.Enum):
        return ('enum', type(obj).__name__, obj.name)
    if isinstance(obj, (list, tuple)):
        return (type(obj).__name__,) + tuple(snap(x, depth + 1) for x in obj)
    if isinstance(obj, (set, frozenset)):
        return ('set',) + tuple(sorted((snap(x, depth + 1) for x in obj), key=repr))
    if isinstance(obj, dict):
        return ('dict',) + tuple((snap(k, depth + 1), snap(v, depth + 1)) for k, v in obj.items())
    if dataclasses.is_dataclass(obj) and not isinstance(obj, type):
        return (type(obj).__name__,) + tuple((f.name, snap(getattr(obj, f.name), depth + 1))
                                             for f in dataclasses.fields(obj))
    if isinstance(obj, (types.FunctionType, types.BuiltinFunctionType, types.MethodType, type,
                        types.ModuleType, property, staticmethod, classmethod)):
        return ('callable', getattr(obj, '__qualname__', repr(type(obj))))
    d = getattr(obj, '__dict__', None)
    if d is not None:
        return (type(obj).__name__,) + tuple((k, snap(v, depth + 1)) for k, v in sorted(d.items()))
    return ('repr', repr(obj))


def global_state() -> Any:
    """Module-level and class-level state of every dznpy module."""
    out = []
    for name in sorted(sys.modules):
        if name != 'dznpy' and not name.startswith('dznpy.'):
            continue
        mod = sys.modules[name]
        for k, v in sorted(vars(mod).items()):
            if k.startswith('__'):
                continue
            if isinstance(v, type) and v.__module__ == name:
                for ck, cv in sorted(vars(v).items()):
                    if ck.startswith('__') or callable(cv) or isinstance(cv, (property, staticmethod,
                                                                              classmethod)):
                        continue
                    out.append((name, k, ck, snap(cv)))
            elif not isinstance(v, (type, types.ModuleType, types.FunctionType, types.BuiltinFunctionType)):
                out.append((name, k, snap(v)))
    return out


def outcome(thunk) -> Tuple:
    """('files', [(name, contents, hash, namespace)]) or ('error', type, message)."""
    try:
        cfg = thunk()
        res = Builder().build(cfg)
    except Exception as exc:  # pylint: disable=broad-except
        return ('error', type(exc).__name__, str(exc)), None
    return ('files', [(f.filename, f.contents, f.hash, snap(f.namespace)) for f in res.files]), cfg


def _standalone_support(prefix):
    ns = ns_ids_t(list(prefix)) if prefix else None
    return [(g.filename, g.contents) for g in
            (strict_port.create_header(ns), ilog.create_header(ns), misc_utils.create_header(ns),
             meta_helpers.create_header(ns), multi_client_selector.create_header(ns),
             mutex_wrapped.create_header(ns))]


def _step(ci: int, fault: int, spelling: int = 0) -> bool:
    """One build step from case ci (fault < 0: the valid case).  spelling: how the encapsulee name is
    given (0 NamespaceIds, 1 dotted str, 2 '::' str, 3 list of str - all accepted by build())."""
    case, pc = fam.VALID[ci]
    if fault < 0:
        def thunk():
            cfg = fam.make_configuration(case, pc)
            ids = list(cfg.fqn_encapsulee_name.items)
            if spelling == 1:
                cfg.fqn_encapsulee_name = '.'.join(ids)
            elif spelling == 2 and len(ids) > 1:
                cfg.fqn_encapsulee_name = '::'.join(ids)
            elif spelling == 3:
                cfg.fqn_encapsulee_name = ids
            return cfg
    else:
        thunk = c13.build_fault(case, pc, fault)
        if thunk is None:
            return True
    try:
        cfg = thunk()
    except Exception:  # configuration rejected at construction: no build step  # pylint: disable=broad-except
        return True
    g0 = global_state()
    fc0, cfg0 = snap(cfg.ast_fc), snap(cfg)
    builder = Builder()
    try:
        first = ('files', [(f.filename, f.contents, f.hash) for f in builder.build(cfg).files])
    except Exception as exc:  # pylint: disable=broad-except
        first = ('error', type(exc).__name__, str(exc))
    if snap(cfg.ast_fc) != fc0 or snap(cfg) != cfg0 or global_state() != g0:
        return False
    try:
        second = ('files', [(f.filename, f.contents, f.hash) for f in Builder().build(cfg).files])
    except Exception as exc:  # pylint: disable=broad-except
        second = ('error', type(exc).__name__, str(exc))
    if first != second or snap(cfg.ast_fc) != fc0 or snap(cfg) != cfg0 or global_state() != g0:
        return False
    try:    # the same Builder instance again
        third = ('files', [(f.filename, f.contents, f.hash) for f in builder.build(cfg).files])
    except Exception as exc:  # pylint: disable=broad-except
        third = ('error', type(exc).__name__, str(exc))
    if third != first:
        return False
    if first[0] == 'files':
        support = [(n, c) for n, c, _ in first[1][2:]]
        if support != _standalone_support(case.prefix):
            return False
        if fault < 0 and spelling == 0:   # ... and equal to the first-and-only build of a fresh interpreter
            import hashlib
            mine = [[n, hashlib.sha256(c.encode()).hexdigest(), h] for n, c, h in first[1]]
            if mine != _fresh(ci):
                return False
    return True


# ---- reference: every valid case built as the FIRST and ONLY build of a fresh interpreter -------------
_REF_ENV = 'VF_C12_REFERENCE'
_CHILD = '''
import sys, json, hashlib
sys.path.insert(0, %(verif)r)
from vf import family as fam
from dznpy.adv_shell import Builder
ci = int(sys.argv[1])
case, pc = fam.VALID[ci]
files = Builder().build(fam.make_configuration(case, pc)).files
print(json.dumps([[f.filename, hashlib.sha256(f.contents.encode()).hexdigest(), f.hash] for f in files]))
'''


def _compute_references() -> dict:
    import json
    import os
    import subprocess
    import tempfile
    from concurrent.futures import ThreadPoolExecutor
    path = os.environ.get(_REF_ENV)
    if path and os.path.exists(path):
        with open(path, encoding='utf-8') as fh:
            return {int(k): v for k, v in json.load(fh).items()}
    verif = os.path.dirname(os.path.dirname(os.path.abspath(__file__)))
    src = _CHILD % {'verif': verif}
    env = dict(os.environ, PYTHONPATH=verif, PYTHONHASHSEED='random')

    def one(ci):
        proc = subprocess.run([sys.executable, '-c', src, str(ci)], capture_output=True, text=True, env=env,
                              timeout=300, check=False)
        return ci, json.loads(proc.stdout.strip().splitlines()[-1]) if proc.returncode == 0 else None

    with ThreadPoolExecutor(max_workers=os.cpu_count() or 4) as pool:
        refs = dict(pool.map(one, range(len(fam.VALID))))
    fd, path = tempfile.mkstemp(prefix='vf_c12_ref_', suffix='.json')
    with os.fdopen(fd, 'w', encoding='utf-8') as fh:
        json.dump(refs, fh)
    os.environ[_REF_ENV] = path          # inherited by the CrossHair worker processes of this run
    import atexit
    atexit.register(lambda: os.path.exists(path) and os.remove(path))
    return refs


_FRESH = _compute_references()


def _digest(files):
    import hashlib
    return [[f.filename, hashlib.sha256(f.contents.encode()).hexdigest(), f.hash] for f in files]


def _fresh(ci: int):
    ref = _FRESH.get(ci)
    if ref is None:
        raise RuntimeError(f'no fresh-process reference for case {ci}')
    return ref


def _pair(ci: int, cj: int, fault_first: int) -> bool:
    """Build case ci (optionally a failing variation of it) and then case cj on the SAME Builder
    instance and the same parsed models: the second result equals a fresh build of cj."""
    ref = _fresh(cj)
    case_i, pc_i = fam.VALID[ci]
    case_j, pc_j = fam.VALID[cj]
    builder = Builder()
    thunk = (lambda: fam.make_configuration(case_i, pc_i)) if fault_first < 0 else \
        c13.build_fault(case_i, pc_i, fault_first)
    if thunk is None:
        return True
    try:
        builder.build(thunk())
    except Exception:  # pylint: disable=broad-except
        pass
    got = _digest(builder.build(fam.make_configuration(case_j, pc_j)).files)
    return got == ref


# ---- twin models: same names and scopes, different content -----------------------------------------------
_TWIN_CHILD = '''
import sys, json, hashlib
sys.path.insert(0, %(verif)r)
from props import c12
print(json.dumps(c12._twin_build(int(sys.argv[1]), int(sys.argv[2]), int(sys.argv[3]))))
'''
_TWIN_REF = {}


def _twin_cases(ti: int):
    """(base (case, ports_cfg) list, twin model, twin FileContents)"""
    base_label, twin = fam.TWINS[ti]
    base = [(c, pc) for c, pc in fam.VALID if fam.MODELS_ALL[c.model_i].label == base_label]
    return base, twin, fam.TWIN_FCS[twin.label]


def _twin_build(ti: int, bi: int, origin_i: int):
    """Build the twin model with the bi-th base configuration (configuration objects are rebuilt for
    the twin's own ports); returns digests."""
    base, twin, fc = _twin_cases(ti)
    case, _pc = base[bi % len(base)]
    cfgs = dict(fam.port_cfgs(twin))
    pc = cfgs.get(case.cfg_label) or list(cfgs.values())[0]
    cfg = fam.make_configuration(case, pc, fc=fc)
    return _digest(Builder().build(cfg).files)


def _twin_reference(ti: int, bi: int, oi: int):
    import json
    import os
    import subprocess
    key = (ti, bi, oi)
    if key not in _TWIN_REF:
        verif = os.path.dirname(os.path.dirname(os.path.abspath(__file__)))
        proc = subprocess.run([sys.executable, '-c', _TWIN_CHILD % {'verif': verif}, str(ti), str(bi), str(oi)],
                              capture_output=True, text=True, timeout=300, check=False,
                              env=dict(os.environ, PYTHONPATH=verif))
        _TWIN_REF[key] = json.loads(proc.stdout.strip().splitlines()[-1])
    return _TWIN_REF[key]


def _twin_case(ti: int, bi: int, first: int) -> bool:
    """Build a base-model case (valid, or failing with a fault) and then the twin in the same process:
    the twin's files equal those of a fresh interpreter that only ever built the twin."""
    base, _twin, _fc = _twin_cases(ti)
    case, pc = base[bi % len(base)]
    thunk = (lambda: fam.make_configuration(case, pc)) if first < 0 else c13.build_fault(case, pc, first)
    if thunk is not None:
        try:
            Builder().build(thunk())
        except Exception:  # pylint: disable=broad-except
            pass
    return _twin_build(ti, bi, 0) == _twin_reference(ti, bi, 0)


def h_twins(ti: int, bi: int, ff: int) -> bool:
    """Twin models: the earlier build of a same-named model must not leak into the later one."""
    return run_native(_twin_case, pick(range(len(fam.TWINS)), ti), pick(range(12), bi), pick([-1, 4, 17], ff))


def h_step(ci: int, fault: int) -> bool:
    """The inductive step from every valid and every single-fault case."""
    return run_native(_step, pick(range(len(fam.VALID)), ci), pick(range(-1, c13.NFAULTS), fault + 1))


def h_step_spelling(ci: int, spelling: int) -> bool:
    """The step for valid cases whose encapsulee name is given as str / '::' str / list."""
    return run_native(_step, pick(range(len(fam.VALID)), ci), -1, pick(range(1, 4), spelling - 1))


def h_pair(ci: int, cj: int, ff: int) -> bool:
    """Ordered pairs of builds sharing a Builder instance and parsed models."""
    return run_native(_pair, pick(range(len(fam.VALID)), ci), pick(range(len(fam.VALID)), cj),
                      pick([-1, 0, 4, 9, 17], ff))


NV = len(fam.VALID)
SPECS = [
    H('h_step', 'deep', pre=[f'0 <= ci < {NV}', f'-1 <= fault < {c13.NFAULTS}'],
      quick=dict(ct=280, pt=60), thorough=dict(ct=900, pt=60),
      shards=lambda p: [f'ci % 16 == {i}' for i in range(16)],
      bounds=f'{NV} valid cases x (no fault + {c13.NFAULTS} single faults): inputs and dznpy global state '
             'unchanged, repeat build equal, support files equal stand-alone generation'),
    H('h_step_spelling', 'deep', pre=[f'0 <= ci < {NV}', '1 <= spelling <= 3'],
      quick=dict(ct=280, pt=60), thorough=dict(ct=900, pt=60),
      shards=lambda p: [f'ci % 8 == {i}' for i in range(8)],
      bounds=f'{NV} valid cases x encapsulee name given as dotted str, "::" str, list of str'),
    H('h_twins', 'deep', pre=['0 <= ti < %d' % len(fam.TWINS), '0 <= bi < 12', '0 <= ff < 3'],
      quick=dict(ct=280, pt=120), thorough=dict(ct=900, pt=200),
      shards=lambda p: [f'ti == {i}' for i in range(len(fam.TWINS))],
      bounds='%d twin models (same names/scopes as a base model, other extern data / event signatures) built '
             'after <= 12 configurations of the base model (valid or failing), vs a fresh interpreter' % len(fam.TWINS)),
    H('h_pair', 'deep', pre=[f'0 <= ci < {NV}', f'0 <= cj < {NV}', '0 <= ff < {F}', 'ci % {S} == 0'],
      quick=dict(F=2, S=6, ct=420, pt=60), thorough=dict(F=5, S=1, ct=3000, pt=60),
      shards=lambda p: [f'cj % 16 == {i}' for i in range(16)],
      bounds=f'ordered pairs (first build: every {{S}}-th valid case, valid or with one of {{F}}-1 faults; second '
             f'build: all {NV} valid cases) on one Builder instance vs a fresh build'),
]
