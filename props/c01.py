"""C01 — the shell forwards every port event to its counterpart exactly once, intact.

The generated C++ (regenerated from /repo/src for every case of the family) is parsed by clang and
executed by the ShellSem abstract machine: handlers are bound on the far side of every slot of every
exposed port, every slot is invoked with fresh symbolic arguments, and exactly-once delivery to the
same-named event of the same-named port, argument integrity (validity over ALL argument values),
reply and out/inout propagation are decided by z3.  A hunt harness (CrossHair) additionally looks for
identifier-shape defects in the Python generator with symbolic port names.
"""
from vf import realcode  # noqa: F401
from vf import family as fam
from props import shellsem_common as ss

PROPERTY = 'C01'
LEVEL = ss.LEVEL
FUNCTIONS = ['generated <Shell>::<Shell> (member-init list + body)', 'generated Provides*/Requires* accessors', 'generated InitializePort*', 'MultiClientSelector::Index/Arbitered/operator()', 'processing.reroute_in_events', 'processing.reroute_out_events', 'processing.stdref_*', 'processing.create_constructor', 'processing.create_cpp_portitf']
ASSUMPTIONS = [
    'program family: %d models x valid port configurations x facility origin x support namespace prefix = %d '
    'generated programs (vf/family.py); the quantifier over models is covered by this family only' % (len(fam.MODELS), len(fam.VALID)),
    'trusted base: clang-14 as front-end (typed AST), the ShellSem reading of C++ (vf/shellsem/machine.py) with '
    'library/runtime calls as intrinsics, the mock Dezyne runtime (cpp/mock_dzn) and the mock model header; the '
    'machine is validated on every run against the g++-compiled program (same scenario, traces must agree)',
    'scratch copies of generated headers get "#pragma once": none of them has an include guard (a C06 '
    'observation, not claimed), semantic content untouched',
    'an AST construct or callee outside the interpreted subset makes that program inconclusive (never a pass); '
    'findings are reported only after the g++-compiled program shows the same deviation',
]
OUTSIDE = ('models/configurations outside the family; C++ that clang rejects; behaviour of the real Dezyne runtime '
           'beyond the mocked contract')
finding_key = ss.finding_key
replay_custom = ss.replay_custom
evidence_extra = ss.evidence_extra


def extra(tier, seed, scratch, log):
    return ss.run_prop('C01', 'routing_c01', tier, seed, log)
