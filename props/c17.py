"""C17 — text blocks keep one line per entry and flatten content losslessly.

Real code under symbolic execution: TextBlock.__init__/append/__str__/__add__/__iadd__/trim,
flatten_to_strlist, trim_list, chunk, cond_chunk  (/repo/src/dznpy/text_gen.py, misc_utils.py).
"""
from typing import List, Optional
from vf import realcode  # noqa: F401
from vf.spec import H

from dznpy.text_gen import TextBlock, chunk, cond_chunk
from dznpy.misc_utils import trim_list

PROPERTY = 'C17'
LEVEL = 'model_checking'
FUNCTIONS = ['text_gen.TextBlock.__init__', 'text_gen.TextBlock.append', 'text_gen.TextBlock.__str__',
             'text_gen.TextBlock.__add__', 'text_gen.TextBlock.__iadd__', 'text_gen.TextBlock.trim',
             'text_gen.TextBlock.lines (setter)', 'misc_utils.flatten_to_strlist',
             'misc_utils.trim_list', 'text_gen.chunk', 'text_gen.cond_chunk']
ASSUMPTIONS = [
    "CrossHair's symbolic model of str (str.splitlines, slicing, concatenation, `in`) is faithful to "
    "CPython; every counterexample is replayed natively, a 'confirmed' verdict trusts that model",
    'the reference flattener/splitter in this file (explicit table of the 10 line-boundary code '
    'points + CRLF, no use of str.splitlines) is the specification of "split at line breaks"',
    'deep harnesses: the leaf pool is a class-representative alphabet, backed for short strings by '
    'the wide harnesses of the same functions',
]
OUTSIDE = ('strings longer than the stated length bound, more than two symbolic strings per block, '
           'nesting shapes outside the listed family, content types other than str/int/float/bool/'
           'None/list/dict/TextBlock, TextBlocks with a header nested inside other content')

# ---- independent reference ---------------------------------------------------------------------
# The line boundaries of Python's str.splitlines (library reference, "str.splitlines"), as an
# explicit table; '\r\n' counts as one boundary.
BRK = '\n\r\x0b\x0c\x1c\x1d\x1e\x85\u2028\u2029'


def ref_split(s: str) -> List[str]:
    """Split char by char at every line boundary; a trailing boundary yields no extra piece;
    the empty string is one blank line."""
    if s == '':
        return ['']
    out: List[str] = []
    cur = ''
    i = 0
    n = len(s)
    while i < n:
        c = s[i]
        if c in BRK:
            out.append(cur)
            cur = ''
            if c == '\r' and i + 1 < n and s[i + 1] == '\n':
                i += 2
            else:
                i += 1
        else:
            cur += c
            i += 1
    if cur != '':
        out.append(cur)
    return out


def ref_lines(x, skip_empty_str: bool = False) -> List[str]:
    """Depth-first, left-to-right lines of a nesting; None/empty containers contribute nothing,
    '' is one blank line (unless skip_empty_str), other values are stringified."""
    if x is None:
        return []
    if isinstance(x, TextBlock):
        return list(x.lines)
    if isinstance(x, list):
        out: List[str] = []
        for item in x:
            out += ref_lines(item, skip_empty_str)
        return out
    if isinstance(x, dict):
        out = []
        for item in x.values():
            out += ref_lines(item, skip_empty_str)
        return out
    if isinstance(x, str):
        if x == '' and skip_empty_str:
            return []
        return ref_split(x)
    txt = str(x)
    return ref_split(txt) if txt != '' else []


def ref_is_empty(x) -> bool:
    """'empty content' in the sense of chunk(): nothing but None / empty containers / ''."""
    if x is None:
        return True
    if isinstance(x, TextBlock):
        return str(x) == ''
    if isinstance(x, list):
        return all(ref_is_empty(i) for i in x)
    if isinstance(x, dict):
        return all(ref_is_empty(i) for i in x.values())
    return str(x) == ''


def ref_str(lines: List[str]) -> str:
    out = ''
    for ln in lines:
        out += ln + '\n'
    return out


# ---- wide harnesses ----------------------------------------------------------------------------

def h_single_string(s: str) -> bool:
    """lines = reference split (hence break-free: reference pieces never hold a boundary),
    str() = each line + exactly one newline."""
    tb = TextBlock(s)
    lines = tb.lines
    return lines == ref_split(s) and str(tb) == ref_str(lines)


def h_roundtrip(a: str, b: str) -> bool:
    """Feeding a non-empty block's string form back in reproduces the same lines."""
    tb = TextBlock([a, b])
    if not tb.lines:
        return False  # two strings always give at least two lines
    again = TextBlock(str(tb))
    return again.lines == tb.lines and str(again) == str(tb)


SHAPES = [
    lambda a, b: [a, b],
    lambda a, b: [a, [b]],
    lambda a, b: [[a, None], b],
    lambda a, b: {'x': a, 'y': [b]},
    lambda a, b: [a, 7, b],
    lambda a, b: [TextBlock(a), b],
    lambda a, b: [[], a, {}, b, None],
    lambda a, b: [[[a]], [[b]]],
    lambda a, b: [a, '', b],
    lambda a, b: [a, TextBlock([b, a])],
    lambda a, b: {'x': {'y': [a, {'z': b}]}},
    lambda a, b: [a, 3.5, True, b],
    lambda a, b: TextBlock([a, b]),
    lambda a, b: [None, [None, [a]], -1, [b, []]],
    lambda a, b: [a, TextBlock(), b],
    lambda a, b: [1.0, True, 1, a, 0.0, False, 0, -0.0, b, 2, 2.0],       # equal numbers, different text forms
    lambda a, b: [TextBlock(None), [a, TextBlock([])], {'k': TextBlock('')}, b],
]


def h_shape(k: int, a: str, b: str) -> bool:
    """Two arbitrary strings inside nesting shape k: lines and string form equal the reference."""
    content = SHAPES[k](a, b)
    expect = ref_lines(SHAPES[k](a, b))
    tb = TextBlock(content)
    return tb.lines == expect and str(tb) == ref_str(expect)


def h_concat(a: str, b: str) -> bool:
    """`+`, `+=` and append are concatenation; `+` leaves its operands unchanged."""
    la, lb = ref_split(a), ref_split(b)
    t1 = TextBlock(a)
    t2 = TextBlock(b)
    t3 = t1 + t2
    if t3.lines != la + lb or t1.lines != la or t2.lines != lb or t3 is t1:
        return False
    t4 = t1 + b
    if t4.lines != la + lb or t1.lines != la:
        return False
    t5 = TextBlock(a)
    t5_before = t5
    t5 += b
    if t5.lines != la + lb or t5 is not t5_before:        # += extends this very block
        return False
    t6 = TextBlock(a)
    ret = t6.append(t2)
    if ret is not t6 or t6.lines != la + lb or t2.lines != lb:
        return False
    t7 = TextBlock()
    t7.append(a).append(b)
    return t7.lines == la + lb and str(t7) == ref_str(la + lb)


def h_header(a: str, b: str) -> bool:
    """header lines come first in the string form, each with one newline, and are not in .lines."""
    tb = TextBlock(content=a, header=b)
    hdr = ref_split(b) if b != '' else []
    return tb.lines == ref_split(a) and str(tb) == ref_str(hdr + ref_split(a))


def h_trim_wide(a: str, b: str, c: str, d: str, end_only: bool) -> bool:
    """trim removes exactly the leading/trailing empty lines (only trailing with end_only)."""
    src = [a, b, c, d]
    tb = TextBlock()
    tb.lines = src
    ret = tb.trim(end_only)
    lo, hi = 0, len(src)
    if not end_only:
        while lo < hi and src[lo] == '':
            lo += 1
    while hi > lo and src[hi - 1] == '':
        hi -= 1
    return ret is tb and tb.lines == src[lo:hi] and src == [a, b, c, d]


CHUNK_SHAPES = [
    lambda a: a,
    lambda a: [a],
    lambda a: [None, a, []],
    lambda a: {'k': a},
    lambda a: TextBlock(a) if a != '' else TextBlock(),
    lambda a: [a, ''],
    lambda a: ['', a],
    lambda a: [[], {}, None, ''],
    lambda a: [TextBlock(), a],
    lambda a: [TextBlock(), [TextBlock([])], None],
]


def h_chunk(k: int, a: str, b: str, default_appendix: bool) -> bool:
    """chunk(): None for empty content, otherwise content lines followed by the appendix lines."""
    content = CHUNK_SHAPES[k](a)
    res = chunk(content) if default_appendix else chunk(content, b)
    if ref_is_empty(CHUNK_SHAPES[k](a)):
        return res is None
    if res is None:
        return False
    app = [''] if default_appendix else ref_lines(b, skip_empty_str=True)
    return res.lines == ref_lines(CHUNK_SHAPES[k](a)) + app


def h_cond_chunk(k: int, p: str, a: str, e: str, all_or_nothing: bool) -> bool:
    """cond_chunk(): preamble+content+appendix, or preamble+empty_response+appendix, or the literal
    empty_response / nothing with all_or_nothing."""
    content = CHUNK_SHAPES[k](a)
    res = cond_chunk(p, content, e, all_or_nothing=all_or_nothing)
    lp = ref_lines(p, skip_empty_str=True)
    le = ref_lines(e, skip_empty_str=True)
    if not ref_is_empty(CHUNK_SHAPES[k](a)):
        return res is not None and res.lines == lp + ref_lines(CHUNK_SHAPES[k](a)) + ['']
    if all_or_nothing:
        if e == '':
            return res is None
        return res is not None and res.lines == ref_split(e)
    if not lp and not le:
        return res is None
    return res is not None and res.lines == lp + le + ['']


# ---- deep harnesses (int-coded structure over a class alphabet) -----------------------------------

POOL = ['a', '', ' ', 'a\nb', '\r\n', 'x\u2028', '\n\n', ' a ', 'a\rb\n', '\x1c\x85', '\t', 'b\x0c']
NKINDS = 10


def _leaf(kind: int, code: int, pool_n: int):
    s = POOL[code % pool_n]
    t = POOL[(code + 1) % pool_n]
    if kind == 0:
        return s
    if kind == 1:
        return None
    if kind == 2:
        return code - 1
    if kind == 3:
        return [s, t]
    if kind == 4:
        return {'k': s, 'l': [t]}
    if kind == 5:
        return TextBlock(s)
    if kind == 6:
        return []
    if kind == 8:
        return TextBlock()
    if kind == 9:
        return [TextBlock(), s, {'e': TextBlock([])}]
    return [[s], None, {'q': []}]


def h_deep(pool_n: int, n: int, k0: int, c0: int, k1: int, c1: int, k2: int, c2: int) -> bool:
    """n items, each of a symbolic kind with a symbolic pool leaf: lines equal the reference, the
    string form is line+newline, and feeding the string form back reproduces the lines."""
    spec = [(k0, c0), (k1, c1), (k2, c2)][:n]
    content = [_leaf(k, c, pool_n) for k, c in spec]
    expect = ref_lines([_leaf(k, c, pool_n) for k, c in spec])
    tb = TextBlock(content)
    if tb.lines != expect or str(tb) != ref_str(expect):
        return False
    if expect and TextBlock(str(tb)).lines != expect:
        return False
    return True


TRIM_POOL = ['', 'a', 0, None, [], False, 0.0, ' ']


def h_trim_list_deep(n: int, c0: int, c1: int, c2: int, c3: int, end_only: bool) -> bool:
    """trim_list on mixed items: 'Python-empty' non-numbers are trimmed from the ends only."""
    src = [TRIM_POOL[c] for c in [c0, c1, c2, c3][:n]]
    before = list(src)
    res = trim_list(src, end_only)

    def trimmable(v) -> bool:
        return v is None or (isinstance(v, (str, list)) and len(v) == 0)

    lo, hi = 0, len(src)
    if not end_only:
        while lo < hi and trimmable(before[lo]):
            lo += 1
    while hi > lo and trimmable(before[hi - 1]):
        hi -= 1
    return res == before[lo:hi] and src == before


SPECS = [
    H('h_single_string', 'wide', pre=['len(s) <= {LMAX}'],
      quick=dict(LMAX=4, ct=120, pt=30), thorough=dict(LMAX=6, ct=1500, pt=60),
      shards=lambda p: [f'len(s) == {i}' for i in range(p['LMAX'] + 1)],
      bounds='one unconstrained unicode str, len <= {LMAX}'),
    H('h_roundtrip', 'wide', pre=['len(a) <= {N}', 'len(b) <= {N}'],
      quick=dict(N=2, ct=150, pt=30), thorough=dict(N=3, ct=1500, pt=60),
      shards=lambda p: [f'len(a) == {i}' for i in range(p['N'] + 1)],
      bounds='two unconstrained unicode str, len <= {N} each'),
    H('h_shape', 'wide', pre=['len(a) <= {N}', 'len(b) <= {N}'],
      quick=dict(N=2, ct=200, pt=30), thorough=dict(N=3, ct=1500, pt=60),
      shards=lambda p: [f'k == {i}' for i in range(len(SHAPES))],
      bounds='two unconstrained unicode str, len <= {N} each, in each of %d nesting shapes '
             '(depth <= 4; leaves str/int/float/bool/None/list/dict/TextBlock)' % len(SHAPES)),
    H('h_concat', 'wide', pre=['len(a) <= {N}', 'len(b) <= {N}'],
      quick=dict(N=2, ct=200, pt=30), thorough=dict(N=3, ct=1500, pt=60),
      shards=lambda p: [f'len(a) == {i}' for i in range(p['N'] + 1)],
      bounds='two unconstrained unicode str, len <= {N} each'),
    H('h_header', 'wide', pre=['len(a) <= {N}', 'len(b) <= {N}'],
      quick=dict(N=2, ct=150, pt=30), thorough=dict(N=3, ct=1500, pt=60),
      shards=lambda p: [f'len(a) == {i}' for i in range(p['N'] + 1)],
      bounds='content and header each one unconstrained unicode str, len <= {N}'),
    H('h_trim_wide', 'wide',
      pre=['len(a) <= {N}', 'len(b) <= {N}', 'len(c) <= {N}', 'len(d) <= {N}'],
      quick=dict(N=1, ct=120, pt=30), thorough=dict(N=2, ct=600, pt=60),
      bounds='four lines, each an unconstrained unicode str of len <= {N}, both trim modes'),
    H('h_chunk', 'wide', pre=['len(a) <= {N}', 'len(b) <= {N}'],
      quick=dict(N=2, ct=200, pt=30), thorough=dict(N=3, ct=1500, pt=60),
      shards=lambda p: [f'k == {i}' for i in range(len(CHUNK_SHAPES))],
      bounds='content = one unconstrained str (len <= {N}) in each of %d shapes, appendix default or '
             'one unconstrained str (len <= {N})' % len(CHUNK_SHAPES)),
    H('h_cond_chunk', 'wide', pre=['len(p) <= {M}', 'len(a) <= {N}', 'len(e) <= {M}'],
      quick=dict(N=1, M=1, ct=200, pt=30), thorough=dict(N=2, M=2, ct=1500, pt=60),
      shards=lambda p: [f'k == {i}' for i in range(len(CHUNK_SHAPES))],
      bounds='preamble/empty_response unconstrained str len <= {M}, content one str len <= {N} in '
             'each of %d shapes, both all_or_nothing values' % len(CHUNK_SHAPES)),
    H('h_deep', 'deep',
      pre=['pool_n == {P}', '0 <= n <= {I}', '0 <= k0 < %d' % NKINDS, '0 <= c0 < {P}',
           '0 <= k1 < %d' % NKINDS, '0 <= c1 < {P}', '0 <= k2 < %d' % NKINDS, '0 <= c2 < {P}'],
      quick=dict(P=4, I=2, ct=300, pt=30), thorough=dict(P=12, I=2, ct=1500, pt=60),
      shards=lambda p: [f'k0 == {i}' for i in range(NKINDS)],
      bounds='<= {I} items, each one of %d kinds (str, None, int, list, dict, TextBlock, [], nested, empty TextBlock) '
             'with leaves from a {P}-string class alphabet (line-break / blank / text mixes)' % NKINDS),
    H('h_trim_list_deep', 'deep',
      pre=['0 <= n <= {I}'] + [f'0 <= c{i} < {len(TRIM_POOL)}' for i in range(4)],
      quick=dict(I=3, ct=300, pt=30), thorough=dict(I=4, ct=1500, pt=60),
      shards=lambda p: [f'c0 == {i}' for i in range(len(TRIM_POOL))],
      bounds='lists of <= {I} items from %d representative values, both trim modes' % len(TRIM_POOL)),
]
