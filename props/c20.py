"""C20 — C++ building blocks render matching declarations and definitions.

Real code: cpp_gen.Param/TypeDesc/Fqn/TemplateArg, Function/Constructor/Destructor.as_decl/as_def,
Struct/Class/Namespace.__str__, AccessSpecifiedSection, SystemIncludes/ProjectIncludes,
MemberVariable.  The clause "accepted by a C++ compiler" is not claimed (compiler acceptance, see C06).
"""
import re
from typing import List, Optional, Tuple
from vf import realcode  # noqa: F401
from vf.spec import H, pick
from vf.fast import run_native
from props.c17 import BRK, ref_split

from dznpy import cpp_gen
from dznpy.cpp_gen import (Param, TypeDesc, Fqn, TemplateArg, TypePostfix, Function, FunctionPrefix,
                           Constructor, Destructor, Struct, Class, Namespace, AccessSpecifiedSection,
                           AccessSpecifier, SystemIncludes, ProjectIncludes, MemberVariable, fqn_t,
                           CppGenError)
from dznpy.scoping import ns_ids_t
from dznpy.text_gen import TextBlock

PROPERTY = 'C20'
LEVEL = 'model_checking'
FUNCTIONS = ['cpp_gen.Param.as_decl/as_def', 'cpp_gen.TypeDesc.__str__', 'cpp_gen.Fqn.__str__',
             'cpp_gen.TemplateArg.__str__', 'cpp_gen.Function.as_decl/as_def',
             'cpp_gen.Constructor.as_decl/as_def', 'cpp_gen.Destructor.as_decl/as_def',
             'cpp_gen.Struct.__str__', 'cpp_gen.Class.__str__', 'cpp_gen.Namespace.__str__',
             'cpp_gen.AccessSpecifiedSection.__str__', 'cpp_gen.SystemIncludes.__str__',
             'cpp_gen.ProjectIncludes.__str__', 'cpp_gen.MemberVariable.__str__', 'cpp_gen.fqn_t']
ASSUMPTIONS = [
    "CrossHair's symbolic str model is faithful to CPython (counterexamples are replayed natively)",
    'identifiers, types, default values and initialisers contain no line-break characters (they are '
    'single C++ tokens / expressions); function contents may contain any text',
    'deep harness: the rendered text is parsed back by a small signature tokenizer (this file) that '
    'splits parameters at top-level commas and "type name [= default]" at the last blank',
    'clause "any composition is accepted by a C++ compiler" is NOT covered (compiler acceptance)',
]
OUTSIDE = ('more than 2 parameters, symbolic strings longer than the bound, types outside the pool in '
           'the deep family, C++ compiler acceptance')

# ------------------------------------------------------------------------------------------------
# deep family: int-coded descriptions, rendered by the real code, parsed back by a tokenizer
# ------------------------------------------------------------------------------------------------
TYPES = [
    lambda: TypeDesc(fqn_t('int')),
    lambda: TypeDesc(fqn_t('void')),
    lambda: TypeDesc(fqn_t('My.Data'), postfix=TypePostfix.REFERENCE, const=True),
    lambda: TypeDesc(fqn_t('My.Data'), postfix=TypePostfix.POINTER),
    lambda: TypeDesc(fqn_t('My.Data', True), TemplateArg(fqn_t('Hal.IHeater'))),
    lambda: TypeDesc(fqn_t('std.string'), postfix=TypePostfix.REFERENCE, const=True,
                     default_value='""'),
    lambda: TypeDesc(fqn_t('size_t'), default_value='123u'),
    lambda: TypeDesc(fqn_t('My.Data', True), TemplateArg(fqn_t('A.B', True)), TypePostfix.POINTER,
                     True, 'nullptr'),
    lambda: TypeDesc(fqn_t('Pt'), default_value='Pt(1, 2)'),
    lambda: TypeDesc(fqn_t('V'), TemplateArg(fqn_t('int')), default_value='{1, 2}'),
]
TYPE_TXT = ['int', 'void', 'const My::Data&', 'My::Data*', '::My::Data<Hal::IHeater>',
            'const std::string&', 'size_t', 'const ::My::Data<::A::B>*', 'Pt', 'V<int>']
TYPE_DEFAULT = [None, None, None, None, None, '""', '123u', 'nullptr', 'Pt(1, 2)', '{1, 2}']
NAMES = ['f', 'Calc', 'x_1', '_y']
CAVS = ['', 'const', 'volatile', 'const volatile']
INITS = ['', 'default', 'delete', '0']
CONTENTS = ['', 'return 1;', 'a();\n\nb();', '  indented;\n']
PREFIXES = [FunctionPrefix.MEMBER_FUNCTION, FunctionPrefix.VIRTUAL, FunctionPrefix.STATIC]
PREFIX_TXT = [None, 'virtual', 'static']


def split_top(text: str) -> List[str]:
    """Split at commas that are not nested in (), <>, {} or a string literal."""
    out, cur, depth, in_str = [], '', 0, False
    for ch in text:
        if in_str:
            cur += ch
            if ch == '"':
                in_str = False
            continue
        if ch == '"':
            in_str = True
        elif ch in '(<{':
            depth += 1
        elif ch in ')>}':
            depth -= 1
        if ch == ',' and depth == 0:
            out.append(cur.strip(' '))
            cur = ''
        else:
            cur += ch
    if cur.strip(' ') != '' or out:
        out.append(cur.strip(' '))
    return out


def parse_params(text: str) -> List[Tuple[str, str, Optional[str]]]:
    """'T a = d, U b' -> [(T, a, d), (U, b, None)]"""
    res = []
    for item in split_top(text):
        default = None
        if ' = ' in item:
            item, default = item.split(' = ', 1)
        typ, _, name = item.rpartition(' ')
        res.append((typ, name, default))
    return res


SIG_RE = re.compile(r'^(?:(?P<prefix>virtual|static|explicit) )?(?:(?P<ret>[^()]*?) )??'
                    r'(?P<qual>(?:[A-Za-z_]\w*::)*)(?P<name>~?[A-Za-z_]\w*)\((?P<params>.*)\)'
                    r'(?: (?P<cav>const volatile|const|volatile))?(?P<override> override)?'
                    r'(?: = (?P<init>[^;{]+))?(?P<tail>;| \{\}|)$')


def parse_sig(line: str):
    m = SIG_RE.match(line)
    return m.groupdict() if m else None


def _indented(text: str) -> List[str]:
    """Expected rendering of function contents: 4 blanks before every non-blank line."""
    return [('    ' + ln) if ln.strip() else '' for ln in ref_split(text)] if text != '' else []


def _check_body(lines: List[str], sig_lines: int, contents: str) -> bool:
    """lines after the signature: '{', indented contents, '}'."""
    body = lines[sig_lines:]
    if len(body) < 2 or body[0] != '{' or body[-1] != '}':
        return False
    return body[1:-1] == _indented(contents)


def _h_function_deep(ri: int, ni: int, np_: int, p0: int, p1: int, pi: int, ci: int, ov: bool,
                    ii: int, ki: int, scoped: bool) -> bool:
    """A function description rendered both ways and parsed back."""
    ret, name = pick(TYPES, ri)(), pick(NAMES, ni)
    ptypes = [pick(list(range(len(TYPES))), p) for p in [p0, p1][:np_]]
    params = [Param(TYPES[t](), f'arg{j}') for j, t in enumerate(ptypes)]
    prefix, cav, init, contents = pick(PREFIXES, pi), pick(CAVS, ci), pick(INITS, ii), \
        pick(CONTENTS, ki)
    scope = Struct('Owner') if scoped else None
    try:
        fn = Function(ret, name, params, prefix, cav, ov, init, contents, scope)
    except CppGenError:
        # documented refusals: virtual without scope, '= 0' without virtual
        return (prefix == FunctionPrefix.VIRTUAL and scope is None) or \
            (init.startswith('0') and prefix != FunctionPrefix.VIRTUAL)
    decl, dfn = fn.as_decl, fn.as_def
    dl = decl.split('\n')
    if len(dl) != 2 or dl[1] != '':
        return False
    d = parse_sig(dl[0])
    if d is None or d['tail'] != ';':
        return False
    exp_params_decl = [(TYPE_TXT[t], f'arg{j}', TYPE_DEFAULT[t]) for j, t in enumerate(ptypes)]
    if (d['prefix'] != PREFIX_TXT[PREFIXES.index(prefix)] or d['ret'] != TYPE_TXT[ri] or d['qual'] != ''
            or d['name'] != name or parse_params(d['params']) != exp_params_decl
            or (d['cav'] or '') != cav or bool(d['override']) != ov or (d['init'] or '') != init):
        return False
    if init != '':
        return dfn == ''                       # no definition when the declaration is initialised
    if dfn == '':
        return False
    fl = dfn.split('\n')
    if fl[-1] != '':
        return False
    fl = fl[:-1]
    f = parse_sig(fl[0])
    if f is None:
        return False
    exp_params_def = [(t, n, None) for t, n, _ in exp_params_decl]
    if (f['prefix'] is not None or f['ret'] != TYPE_TXT[ri] or f['name'] != name
            or f['qual'] != ('Owner::' if scoped else '') or parse_params(f['params']) != exp_params_def
            or (f['cav'] or '') != cav or f['override'] or f['init']):
        return False
    if contents == '':
        ok = f['tail'] == ' {}' and len(fl) == 1
    else:
        ok = f['tail'] == '' and _check_body(fl, 1, contents)
    if not ok:
        return False
    # the owning scope is a public field: (re)assigning it later re-qualifies the definition
    if prefix != FunctionPrefix.VIRTUAL:
        fn.scope = Struct('Later')
        g = parse_sig(fn.as_def.split('\n')[0])
        if g is None or g['qual'] != 'Later::' or parse_sig(fn.as_decl.split('\n')[0])['qual'] != '':
            return False
        fn.scope = None
        g = parse_sig(fn.as_def.split('\n')[0])
        if g is None or g['qual'] != '':
            return False
    return True


MILS = [[], ['m_a(1)'], ['m_a(1)', 'm_b{2}', 'm_c("x")']]


def _h_ctor_deep(cls: bool, ex: bool, np_: int, p0: int, p1: int, ii: int, mi: int, ki: int) -> bool:
    """Constructor: explicit/defaults/initialisation only on the declaration, Owner::Owner definition,
    member initialiser list and contents rendered, no definition when initialised."""
    scope = Class('Owner') if cls else Struct('Owner')
    ptypes = [pick(list(range(len(TYPES))), p) for p in [p0, p1][:np_]]
    params = [Param(TYPES[t](), f'arg{j}') for j, t in enumerate(ptypes)]
    init, mil, contents = pick(INITS[:3], ii), pick(MILS, mi), pick(CONTENTS, ki)
    try:
        ctor = Constructor(scope, ex, params, init, list(mil), contents)
    except CppGenError:
        return init != '' and len(mil) > 0
    decl, dfn = ctor.as_decl, ctor.as_def
    dl = decl.split('\n')
    d = parse_sig(dl[0]) if len(dl) == 2 and dl[1] == '' else None
    if d is None or d['tail'] != ';':
        return False
    exp_decl = [(TYPE_TXT[t], f'arg{j}', TYPE_DEFAULT[t]) for j, t in enumerate(ptypes)]
    if (d['prefix'] != ('explicit' if ex else None) or d['ret'] is not None or d['qual'] != ''
            or d['name'] != 'Owner' or parse_params(d['params']) != exp_decl or d['cav']
            or d['override'] or (d['init'] or '') != init):
        return False
    if init != '':
        return dfn == ''
    fl = dfn.split('\n')
    if fl[-1] != '' or dfn == '':
        return False
    fl = fl[:-1]
    f = parse_sig(fl[0])
    if f is None or f['prefix'] or f['ret'] is not None or f['qual'] != 'Owner::' \
            or f['name'] != 'Owner' or f['init'] or f['cav'] or f['override'] \
            or parse_params(f['params']) != [(t, n, None) for t, n, _ in exp_decl]:
        return False
    if not mil and contents == '':
        return f['tail'] == ' {}' and len(fl) == 1
    if f['tail'] != '':
        return False
    exp_mil = [('    : ' if j == 0 else '    , ') + m for j, m in enumerate(mil)]
    if fl[1:1 + len(mil)] != exp_mil:
        return False
    return _check_body(fl, 1 + len(mil), contents)


def _h_dtor_deep(cls: bool, ov: bool, ii: int, ki: int) -> bool:
    """Destructor declaration/definition."""
    scope = Class('Owner') if cls else Struct('Owner')
    init, contents = pick(INITS[:3], ii), pick(CONTENTS, ki)
    dtor = Destructor(scope, ov, init, contents)
    decl, dfn = dtor.as_decl, dtor.as_def
    if decl != '~Owner()' + (' override' if ov else '') + (f' = {init}' if init else '') + ';\n':
        return False
    if init != '':
        return dfn == ''
    fl = dfn.split('\n')
    if fl[-1] != '' or dfn == '':
        return False
    fl = fl[:-1]
    if contents == '':
        return fl == ['Owner::~Owner() {}']
    return fl[0] == 'Owner::~Owner()' and _check_body(fl, 1, contents)


NS_POOL = [[], ['A'], ['My', 'Project'], ['a', 'b', 'c_1']]
BLOCK_CONTENTS = [None, '', 'int x;', 'a;\n\n  b;\n', '};', '} // namespace X']


def _h_blocks_deep(kind: int, ni: int, ci: int) -> bool:
    """Struct / Class / Namespace: balanced, correctly named open/close around unchanged contents."""
    raw = pick(BLOCK_CONTENTS, ci)
    contents = TextBlock(raw) if raw is not None else None
    inner = ref_split(raw) if raw not in (None,) else []
    if raw is None:
        inner = []
    if kind < 2:
        name = pick(NAMES, ni)
        blk = (Struct if kind == 0 else Class)(name, contents)
        txt = str(blk).split('\n')
        kw = 'struct' if kind == 0 else 'class'
        ok = txt == [f'{kw} {name}', '{'] + inner + ['};', '']
        blk.contents = TextBlock('late;')               # contents can be set later
        if not ok or str(blk).split('\n') != [f'{kw} {name}', '{', 'late;', '};', '']:
            return False
        blk.contents = TextBlock(['int a;'], header='public:')      # contents carrying a header
        return str(blk).split('\n') == [f'{kw} {name}', '{', 'public:', 'int a;', '};', '']
    ids = pick(NS_POOL, ni)
    ns = Namespace(ns_ids_t(list(ids)), contents)
    txt = str(ns).split('\n')
    label = (' ' + '::'.join(ids)) if ids else ''
    if not inner:
        return txt == [f'namespace{label} {{}}', '']
    return txt == [f'namespace{label} {{'] + inner + [f'}} // namespace{label}', '']


def _h_misc_deep(k: int, ti: int, ni: int) -> bool:
    """AccessSpecifiedSection, includes, MemberVariable, Fqn."""
    if k == 0:
        for spec, word in [(AccessSpecifier.PUBLIC, 'public:'), (AccessSpecifier.PROTECTED, 'protected:'),
                           (AccessSpecifier.PRIVATE, 'private:'), (AccessSpecifier.ANONYMOUS, None)]:
            sec = AccessSpecifiedSection(spec, TextBlock(['int a;', '', ' b;']))
            exp = ([word] if word else []) + ['    int a;', '', '     b;', '']
            if str(sec).split('\n') != exp:
                return False
        return True
    if k == 1:
        one = str(SystemIncludes(['string'])).split('\n')
        two = str(SystemIncludes(['string', 'dzn/pump.hh'])).split('\n')
        prj = str(ProjectIncludes(['a.hh', 'b/c.hh'])).split('\n')
        return (one == ['// System include', '#include <string>', '']
                and two == ['// System includes', '#include <string>', '#include <dzn/pump.hh>', '']
                and prj == ['// Project includes', '#include "a.hh"', '#include "b/c.hh"', ''])
    if k == 2:
        name = pick(NAMES, ni)
        mv = MemberVariable(pick(TYPES, ti)(), name)
        return str(mv) == f'{TYPE_TXT[ti]} {name};'
    ids = pick(NS_POOL, ni)
    plain, rooted = str(fqn_t(list(ids))), str(fqn_t(list(ids), True))
    if not ids:
        return plain == '' and rooted == ''
    return plain == '::'.join(ids) and rooted == '::' + '::'.join(ids)


# ------------------------------------------------------------------------------------------------
# wide harnesses: symbolic identifier / default / initialiser / contents strings
# ------------------------------------------------------------------------------------------------

def no_breaks(s: str) -> bool:
    for ch in s:
        if ch in BRK:
            return False
    return True


def h_param_wide(n: str, with_default: bool) -> bool:
    """Param with symbolic name: default only in the declaration."""
    return h_param_wide_impl(n, '{}' if with_default else '')


def h_param_wide_impl(n: str, d: str) -> bool:
    """Param: default only in the declaration."""
    p = Param(TypeDesc(fqn_t('My.T'), postfix=TypePostfix.REFERENCE, const=True, default_value=d), n)
    if p.as_def != 'const My::T& ' + n:
        return False
    return p.as_decl == ('const My::T& ' + n + ' = ' + d if d != '' else p.as_def)


def _tb(text: str) -> str:
    """The text-block rendering of one piece of text (reference): every line + newline."""
    out = ''
    for ln in ref_split(text):
        out += ln + '\n'
    return out


def _function_wide(name: str, pn: str, d: str, init: str, body: str) -> bool:
    scope = Struct('S')
    par = Param(TypeDesc(fqn_t('int'), default_value=d), pn)
    fn = Function(TypeDesc(fqn_t('void')), name, [par], FunctionPrefix.VIRTUAL, 'const', True, init,
                  body, scope)
    dflt = (' = ' + d) if d != '' else ''
    ini = (' = ' + init) if init != '' else ''
    if fn.as_decl != _tb('virtual void ' + name + '(int ' + pn + dflt + ') const override' + ini + ';'):
        return False
    if init != '':
        return fn.as_def == ''
    sig = 'void S::' + name + '(int ' + pn + ') const'
    if body == '':
        return fn.as_def == _tb(sig + ' {}')
    exp = _tb(sig) + '{\n'
    for ln in _indented_sym(body):
        exp += ln + '\n'
    return fn.as_def == exp + '}\n'


def h_function_wide_body(name: str, body: str) -> bool:
    """Symbolic function name and contents: declaration/definition carry the same name, the
    definition is Owner-qualified and wraps the unchanged (indented) contents."""
    return _function_wide(name, 'p', '7', '', body)


def h_function_wide_sig(pn: str, with_default: bool, init: str) -> bool:
    """Symbolic parameter name and initialiser: default and initialiser only on the declaration, no
    definition when initialised."""
    return _function_wide('Fn', pn, '7u' if with_default else '', init, 'x;')


def h_default_hunt(n: str, d: str, init: str) -> bool:
    """Symbolic default value (CrossHair realises symbolic fields of an object that is formatted, so
    this cannot be exhausted: bug hunting only)."""
    return h_param_wide_impl(n, d) and _function_wide('Fn', n if n != '' else 'p', d, init, 'x;')


def _indented_sym(text: str) -> List[str]:
    from props.c18 import ref_blank
    return [('' if ref_blank(ln) else '    ' + ln) for ln in ref_split(text)]


def h_struct_wide(name: str, body: str) -> bool:
    """Struct / Namespace with symbolic name and contents."""
    st = Struct(name, TextBlock(body))
    inner = ''
    for ln in ref_split(body):
        inner += ln + '\n'
    if str(st) != _tb('struct ' + name) + '{\n' + inner + '};\n':
        return False
    cl = Class(name, TextBlock(body))
    return str(cl) == _tb('class ' + name) + '{\n' + inner + '};\n'



def _c(v: int, n: int) -> int:
    """Concrete copy of a symbolic int in range(n), by explicit solver-checked branching."""
    return pick(range(n), v)


def _b(v: bool) -> bool:
    return True if v else False


def h_function_flags(sig: int, pi: int, ci: int, ov: bool, ii: int, ki: int, scoped: bool) -> bool:
    """All prefix x cv x override x initialisation x contents x scope combinations for 3 fixed
    signatures.  Fork on every choice (solver-checked), then render/parse the concrete case."""
    ri, ni, np_, p0, p1 = pick([(1, 0, 0, 0, 0), (2, 1, 2, 5, 3), (4, 2, 2, 7, 8)], sig)
    return run_native(_h_function_deep, ri, ni, np_, p0, p1, _c(pi, 3), _c(ci, len(CAVS)), _b(ov),
                      _c(ii, len(INITS)), _c(ki, len(CONTENTS)), _b(scoped))


def h_function_types(ri: int, ni: int, np_: int, p0: int, p1: int, flags: int) -> bool:
    """All return/parameter type combinations for 3 fixed flag sets."""
    nt = len(TYPES)
    pi, ci, ov, ii, ki, scoped = pick([(0, 0, False, 0, 1, False), (1, 1, True, 0, 2, True),
                                       (2, 0, False, 1, 0, True)], flags)
    return run_native(_h_function_deep, _c(ri, nt), _c(ni, len(NAMES)), _c(np_, 3), _c(p0, nt),
                      _c(p1, nt), pi, ci, ov, ii, ki, scoped)


def h_ctor_deep(cls: bool, ex: bool, np_: int, p0: int, p1: int, ii: int, mi: int, ki: int) -> bool:
    nt = len(TYPES)
    return run_native(_h_ctor_deep, _b(cls), _b(ex), _c(np_, 3), _c(p0, nt), _c(p1, nt), _c(ii, 3),
                      _c(mi, len(MILS)), _c(ki, len(CONTENTS)))


def h_dtor_deep(cls: bool, ov: bool, ii: int, ki: int) -> bool:
    return run_native(_h_dtor_deep, _b(cls), _b(ov), _c(ii, 3), _c(ki, len(CONTENTS)))


def h_blocks_deep(kind: int, ni: int, ci: int) -> bool:
    return run_native(_h_blocks_deep, _c(kind, 3), _c(ni, 4), _c(ci, len(BLOCK_CONTENTS)))


def h_misc_deep(k: int, ti: int, ni: int) -> bool:
    return run_native(_h_misc_deep, _c(k, 4), _c(ti, len(TYPES)), _c(ni, 4))


SPECS = [
    H('h_function_flags', 'deep',
      pre=['0 <= sig < 3', '0 <= pi < 3', '0 <= ci < %d' % len(CAVS), '0 <= ii < %d' % len(INITS),
           '0 <= ki < %d' % len(CONTENTS)],
      quick=dict(ct=280, pt=30), thorough=dict(ct=600, pt=30),
      shards=lambda p: [f'sig == {a} and pi == {b}' for a in range(3) for b in range(3)],
      bounds='3 signatures x all prefix(3) x cv(4) x override(2) x initialisation(4) x contents(4) x '
             'scoped(2) combinations'),
    H('h_function_types', 'deep',
      pre=['0 <= ri < {T}', '0 <= ni < %d' % len(NAMES), '0 <= np_ <= 2', '0 <= p0 < {T}', '0 <= p1 < {T}',
           '0 <= flags < 3'],
      quick=dict(T=5, ct=280, pt=30), thorough=dict(T=len(TYPES), ct=1700, pt=30),
      shards=lambda p: [f'ri == {a} and flags == {b}' for a in range(p['T']) for b in range(3)],
      bounds='return type and <= 2 parameter types from a pool of {T} type descriptions (const/ref/'
             'pointer/template/default values) x %d names x 3 flag sets' % len(NAMES)),
    H('h_ctor_deep', 'deep',
      pre=['0 <= np_ <= 2', '0 <= p0 < {T}', '0 <= p1 < {T}', '0 <= ii < 3', '0 <= mi < %d' % len(MILS),
           '0 <= ki < %d' % len(CONTENTS)],
      quick=dict(T=6, ct=280, pt=30), thorough=dict(T=len(TYPES), ct=1500, pt=30),
      shards=lambda p: [f'ii == {a} and mi == {b}' for a in range(3) for b in range(len(MILS))],
      bounds='struct/class owner, explicit flag, <= 2 parameters from {T} types, 3 initialisations, '
             '%d member-init lists, %d contents' % (len(MILS), len(CONTENTS))),
    H('h_dtor_deep', 'deep', pre=['0 <= ii < 3', '0 <= ki < %d' % len(CONTENTS)],
      quick=dict(ct=120, pt=30), thorough=dict(ct=300, pt=30),
      bounds='all owner/override/initialisation/contents combinations'),
    H('h_blocks_deep', 'deep',
      pre=['0 <= kind <= 2', '0 <= ni < 4', '0 <= ci < %d' % len(BLOCK_CONTENTS)],
      quick=dict(ct=120, pt=30), thorough=dict(ct=300, pt=30),
      bounds='struct/class/namespace x 4 names or id lists (incl. empty) x %d contents (absent, empty, '
             'brace-like text)' % len(BLOCK_CONTENTS)),
    H('h_misc_deep', 'deep', pre=['0 <= k <= 3', '0 <= ti < %d' % len(TYPES), '0 <= ni < 4'],
      quick=dict(ct=120, pt=30), thorough=dict(ct=300, pt=30),
      bounds='access sections, include blocks, member variables over all pool types, Fqn over 4 id lists'),
    H('h_param_wide', 'wide', pre=['len(n) <= {N}'],
      quick=dict(N=3, ct=120, pt=30), thorough=dict(N=6, ct=900, pt=60),
      bounds='parameter name unconstrained unicode str, len <= {N}; with/without a default value'),
    H('h_default_hunt', 'hunt', pre=['len(n) <= {N}', 'len(d) <= {N}', 'len(init) <= 1',
                                     'not init.startswith("0")'],
      quick=dict(N=1, ct=60, pt=30), thorough=dict(N=3, ct=900, pt=60),
      bounds='symbolic default value / name / initialiser, len <= {N} (bug hunting only)'),
    H('h_function_wide_body', 'wide', pre=['1 <= len(name) <= {M}', 'len(body) <= {N}'],
      quick=dict(N=2, M=1, ct=500, pt=60), thorough=dict(N=3, M=2, ct=1700, pt=60),
      shards=lambda p: [f'len(body) == {i}' for i in range(p['N'] + 1)],
      bounds='function name (len <= {M}) and contents (len <= {N}) unconstrained unicode'),
    H('h_function_wide_sig', 'wide', pre=['len(pn) <= {M}', 'len(init) <= {M}',
                                          'not init.startswith("0")'],
      quick=dict(M=1, ct=280, pt=60), thorough=dict(M=2, ct=1700, pt=60),
      shards=lambda p: [f'len(init) == {i}' for i in range(p['M'] + 1)],
      bounds='parameter name and initialiser unconstrained unicode, len <= {M}; with/without default'),
    H('h_struct_wide', 'wide', pre=['1 <= len(name) <= {N}', 'len(body) <= {N}'],
      quick=dict(N=2, ct=200, pt=30), thorough=dict(N=3, ct=1500, pt=60),
      bounds='struct/class name and contents unconstrained unicode, len <= {N}'),
]
