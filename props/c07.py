"""C07 — names in generated code denote the declaration Dezyne's scoping rules select.

Real code: processing.create_dzn_elements (port type from the encapsulee's parent scope),
formal-type look-ups in reroute_in_events/reroute_out_events/initialize_port_* /
reroute_multiclient_out_events, check_multiclient_cfg (claim reply enum), ast_view.find_fqn,
FindResult.get_single_instance, scoping.scope_resolution_order — all through Builder.build.
"""
import re
from typing import List, Optional, Tuple
from vf import realcode  # noqa: F401
from vf.spec import H, pick
from vf.fast import run_native
from vf import docgen as dg

from dznpy.adv_shell import Builder, all_sts, all_mts, MultiClientPortCfg
from dznpy.adv_shell.common import Configuration, FacilitiesOrigin
from dznpy.adv_shell.types import AdvShellError, MultiClientCfgError
from dznpy.ast_view import FindError
from dznpy.scoping import ns_ids_t

PROPERTY = 'C07'
LEVEL = 'model_checking'
FUNCTIONS = ['processing.create_dzn_elements', 'processing.reroute_in_events',
             'processing.reroute_out_events', 'processing.check_multiclient_cfg',
             'processing.initialize_port_claim_snippet', 'processing.create_cpp_portitf',
             'ast_view.find_fqn', 'ast_view.FindResult.get_single_instance',
             'scoping.scope_resolution_order', 'adv_shell.Builder.build']
ASSUMPTIONS = [
    'reference look-up (from the property): candidates = declarations whose fully qualified name is '
    'scope[:k] + written name for some k; exactly one candidate of the required kind => that one, '
    'otherwise the build must fail with FindError (MultiClientCfgError for the claim reply)',
    'namespace identifiers are opaque: a 2-letter alphabet bounds the number of distinct namespaces',
    'each path fixes the model shape (solver-checked choice vector) and runs the real Builder.build; the '
    'C++ type is read from the generated header/source text',
    'well-formed models type event parameters with extern data types; a formal whose unique candidate is '
    'not an extern is outside this property (see C13)',
]
OUTSIDE = ('more than 3 same-named declarations, namespaces deeper than 2 below the root, reference '
           'spellings with more than 2 qualifying identifiers')

# namespace names 'a' / 'ab': one is a string prefix of the other (identifier-wise comparison required)
PATHS = [[], ['a'], ['ab'], ['a', 'a'], ['a', 'ab'], ['ab', 'a'], ['ab', 'ab']]
KINDS = ['absent', 'interface', 'extern', 'enum']
# a declaration option = (kind, path)
DECL_OPTS = [('absent', None)] + [(k, p) for k in KINDS[1:] for p in PATHS]
ITF_OPTS = [('absent', None)] + [('interface', p) for p in PATHS]


def nest(path: List[str], element) -> dict:
    for name in reversed(path):
        element = dg.namespace([name], [element])
    return element


def spellings(name: str) -> List[List[str]]:
    return [p + [name] for p in PATHS]


def chain(scope: List[str], written: List[str]) -> List[List[str]]:
    return [scope[:k] + written for k in range(len(scope), -1, -1)]


# ---- port type ---------------------------------------------------------------------------------------

def _decl_element(kind: str, name: str, tag: int):
    if kind == 'interface':
        return dg.interface([name], [dg.event(f'ev{tag}')])
    if kind == 'extern':
        return dg.extern([name], f'data{tag}')
    return dg.enum([name], [f'F{tag}'])


def _port_type_case(scope: List[str], written: List[str], decls) -> bool:
    elements = []
    for tag, (kind, path) in enumerate(decls):
        if kind != 'absent':
            elements.append(nest(path, _decl_element(kind, 'X', tag)))
    elements.append(nest(scope, dg.component(['C'], [dg.port('p', written, 'provides')])))
    fc = dg.parse(dg.root(elements))
    on_chain = [(tag, kind, path) for tag, (kind, path) in enumerate(decls)
                if kind != 'absent' and path + ['X'] in chain(scope, written)]
    # two declarations with the same fqn are both candidates (=> ambiguous)
    expect_ok = len(on_chain) == 1 and on_chain[0][1] == 'interface'
    cfg = Configuration('M.dzn', fc, 'Sh', ns_ids_t(scope + ['C']), all_sts(), FacilitiesOrigin.IMPORT, 'c')
    try:
        res = Builder().build(cfg)
    except FindError:
        return not expect_ok
    if not expect_ok:
        return False
    fqn = '::' + '::'.join(on_chain[0][2] + ['X'])
    header = res.files[0].contents
    return f'Sts<{fqn}> ProvidesP();' in header and header.count('ProvidesP') == 1


def h_port_type(si: int, wi: int, d0: int, d1: int, d2: int) -> bool:
    """Port type `written` looked up from the component's scope among <= 3 declarations called X."""
    scope = pick(PATHS, si)
    written = pick(spellings('X'), wi)
    decls = [pick(DECL_OPTS, d0), pick(DECL_OPTS, d1), pick(ITF_OPTS, d2)]
    return run_native(_port_type_case, scope, written, decls)


def _two_ports_case(scope: List[str], w1: List[str], w2: List[str], pa: List[str], pb: List[str]) -> bool:
    """Two ports of one component, each with its own spelling: every port is resolved on its own."""
    elements = [nest(pa, dg.interface(['X'], [dg.event('ea', 'in', fmls=[dg.formal('v', ['Ta'])])])),
                dg.extern(['Ta'], 'data_a'), dg.extern(['Tb'], 'data_b')]
    if pb != pa:
        elements.append(nest(pb, dg.interface(['X'], [dg.event('eb', 'in', fmls=[dg.formal('v', ['Tb'])])])))
    elements.append(nest(scope, dg.component(['C'], [dg.port('first', w1, 'provides'),
                                                     dg.port('second', w2, 'provides')])))
    fc = dg.parse(dg.root(elements))
    decls = [pa] + ([pb] if pb != pa else [])
    want = []
    for written in (w1, w2):
        cands = [p for p in decls if p + ['X'] in chain(scope, written)]
        want.append(cands[0] if len(cands) == 1 else None)
    cfg = Configuration('M.dzn', fc, 'Sh', ns_ids_t(scope + ['C']), all_mts(), FacilitiesOrigin.IMPORT, 'c')
    try:
        res = Builder().build(cfg)
    except FindError:
        return None in want
    if None in want:
        return False
    header, source = res.files[0].contents, res.files[1].contents
    for name, path in (('First', want[0]), ('Second', want[1])):
        fqn = '::' + '::'.join(path + ['X'])
        if f'Mts<{fqn}> Provides{name}();' not in header or f'{fqn} m_pp{name};' not in header:
            return False
        ev, data = ('ea', 'data_a') if path == pa else ('eb', 'data_b')
        if f'm_pp{name}.in.{ev} = [&]({data} v) {{' not in source:
            return False
    return True


def h_two_ports(si: int, w1: int, w2: int, a: int, b: int) -> bool:
    """Two interfaces called X in two namespaces, two ports spelling their type differently."""
    return run_native(_two_ports_case, pick(PATHS, si), pick(spellings('X'), w1), pick(spellings('X'), w2),
                      pick(PATHS, a), pick(PATHS, b))


# ---- formal (event parameter) types --------------------------------------------------------------------
EXT_OPTS = [('absent', None)] + [('extern', p) for p in PATHS] + [('extern', ['a', 'I']), ('extern', ['ab', 'I'])]


def _formal_type_case(ipath: List[str], written: List[str], decls, out_event: bool) -> bool:
    elements = []
    for tag, (kind, path) in enumerate(decls):
        if kind != 'absent':
            elements.append(nest(path, dg.extern(['T'], f'data{tag}')))
    events = [dg.event('eo', 'out', fmls=[dg.formal('x', written)])] if out_event else \
        [dg.event('ei', 'in', fmls=[dg.formal('x', written)])]
    elements.append(nest(ipath, dg.interface(['I'], events)))
    direction = 'requires' if out_event else 'provides'
    elements.append(dg.component(['C'], [dg.port('p', ipath + ['I'], direction)]))
    fc = dg.parse(dg.root(elements))
    scope = ipath + ['I']                       # formals are resolved from the interface's own scope
    on_chain = [(tag, path) for tag, (kind, path) in enumerate(decls)
                if kind != 'absent' and path + ['T'] in chain(scope, written)]
    expect_ok = len(on_chain) == 1
    cfg = Configuration('M.dzn', fc, 'Sh', ns_ids_t('C'), all_mts(), FacilitiesOrigin.IMPORT, 'c')
    try:
        res = Builder().build(cfg)
    except FindError:
        return not expect_ok
    if not expect_ok:
        return False
    source = res.files[1].contents
    member = 'm_rpP.out.eo' if out_event else 'm_ppP.in.ei'
    return f'{member} = [&](data{on_chain[0][0]} x) {{' in source


def h_formal_type(ii: int, wi: int, d0: int, d1: int, d2: int, out_event: bool) -> bool:
    """Formal type `written` looked up from the interface scope among <= 3 externs called T."""
    ipath = pick(PATHS, ii)
    written = pick(spellings('T') + [['I', 'T']], wi)
    decls = [pick(EXT_OPTS, d0), pick(EXT_OPTS, d1), pick(EXT_OPTS, d2)]
    return run_native(_formal_type_case, ipath, written, decls, True if out_event else False)


# ---- claim reply enum of a multi-client port ------------------------------------------------------------
ENUM_OPTS = [('absent', None)] + [('enum', p) for p in PATHS] + [('nested', None), ('extern', []), ('extern', ['a'])]


def _claim_enum_case(ipath: List[str], written: List[str], decls) -> bool:
    elements = []
    nested = []
    for tag, (kind, path) in enumerate(decls):
        if kind == 'enum':
            elements.append(nest(path, dg.enum(['R'], ['Ok', f'V{tag}'])))
        elif kind == 'extern':
            elements.append(nest(path, dg.extern(['R'], 'int')))
        elif kind == 'nested' and not nested:
            nested.append(dg.enum(['R'], ['Ok', f'V{tag}']))
    elements.append(nest(ipath, dg.interface(['I'], [dg.event('Claim', 'in', written), dg.event('Release'),
                                                    dg.event('o', 'out')], types=nested)))
    elements.append(dg.component(['C'], [dg.port('p', ipath + ['I'], 'provides')]))
    fc = dg.parse(dg.root(elements))
    scope = ipath + ['I']
    cands = []
    seen_nested = False
    for tag, (kind, path) in enumerate(decls):
        if kind in ('enum', 'extern') and path + ['R'] in chain(scope, written):
            cands.append((kind, path + ['R']))
        elif kind == 'nested' and not seen_nested:
            seen_nested = True
            if scope + ['R'] in chain(scope, written):
                cands.append(('enum', scope + ['R']))
    expect_ok = len(cands) == 1 and cands[0][0] == 'enum'
    cfg = Configuration('M.dzn', fc, 'Sh', ns_ids_t('C'),
                        all_mts(MultiClientPortCfg('p', 'Claim', ns_ids_t('Ok'), 'Release')),
                        FacilitiesOrigin.IMPORT, 'c')
    try:
        res = Builder().build(cfg)
    except MultiClientCfgError:
        return not expect_ok
    if not expect_ok:
        return False
    source = res.files[1].contents
    return f'if (r == ::{"::".join(cands[0][1])}::Ok) m_ppP.Select(identifier);' in source


def h_claim_enum(ii: int, wi: int, d0: int, d1: int, d2: int) -> bool:
    """Reply type of the claim event looked up from the interface scope (enums in namespaces, an enum
    nested in the interface itself, same-named externs)."""
    ipath = pick(PATHS, ii)
    written = pick(spellings('R') + [['I', 'R']], wi)
    decls = [pick(ENUM_OPTS, d0), pick(ENUM_OPTS, d1), pick(ENUM_OPTS, d2)]
    return run_native(_claim_enum_case, ipath, written, decls)


ND, NI, NE, NQ = len(DECL_OPTS), len(ITF_OPTS), len(EXT_OPTS), len(ENUM_OPTS)

SPECS = [
    H('h_port_type', 'deep',
      pre=['0 <= si < 7', '0 <= wi < 7', f'0 <= d0 < {ND}', f'0 <= d1 < {ND}', '0 <= d2 < {D2}'],
      quick=dict(D2=1, ct=280, pt=30), thorough=dict(D2=NI, ct=1700, pt=30),
      shards=lambda p: [f'd0 == {i}' for i in range(ND)],
      bounds='component in each of 7 namespaces (depth <= 2, 2 letters); port type spelled with 0-2 '
             'qualifiers (7 spellings); two declarations named X of any kind (interface/extern/enum) in any '
             'of the 7 namespaces or absent, plus {D2} options for a third interface'),
    H('h_two_ports', 'deep', pre=['0 <= si < 7', '0 <= w1 < 7', '0 <= w2 < 7', '0 <= a < 7', '0 <= b < 7'],
      quick=dict(ct=280, pt=30), thorough=dict(ct=900, pt=30),
      shards=lambda p: [f'si == {i} and a % 2 == {j}' for i in range(7) for j in range(2)],
      bounds='one component with two ports whose types are spelled independently (7 x 7 spellings), two '
             'interfaces called X in any two of 7 namespaces, component in any of 7 scopes'),
    H('h_formal_type', 'deep',
      pre=['0 <= ii < 7', '0 <= wi < 8', f'0 <= d0 < {NE}', f'0 <= d1 < {NE}', '0 <= d2 < {D2}'],
      quick=dict(D2=1, ct=280, pt=30), thorough=dict(D2=NE, ct=1700, pt=30),
      shards=lambda p: [f'd0 == {i} and out_event == {o}' for i in range(NE) for o in (False, True)],
      bounds='interface in each of 7 namespaces; parameter type spelled 8 ways; two externs named T in any of '
             '9 scopes or absent (+{D2} options for a third); in-event of an MTS provides port and out-event '
             'of an MTS requires port'),
    H('h_claim_enum', 'deep',
      pre=['0 <= ii < 7', '0 <= wi < 8', f'0 <= d0 < {NQ}', f'0 <= d1 < {NQ}', '0 <= d2 < {D2}'],
      quick=dict(D2=1, ct=280, pt=30), thorough=dict(D2=NQ, ct=1700, pt=30),
      shards=lambda p: [f'd0 == {i}' for i in range(NQ)],
      bounds='claim reply type spelled 8 ways from 7 interface scopes; two declarations named R (namespace '
             'enum, enum nested in the interface, extern) or absent (+{D2} options for a third)'),
]
