"""C04 — a multi-client port delivers out-events only to the client holding the claim.

One inductive step instead of histories: from every pre-state (nobody / client k holds the claim,
reached through a real granted-claim history) one operation (claim, release, other in-event by any
client) is executed by ShellSem on the generated InitializePort lambdas and the generated
MultiClientSelector (Index/Select/Deselect/CurrentClient/Arbitered, MutexWrapped::operator()), the
claim reply being symbolic; afterwards every component out-event must reach exactly the holder
defined by the property.  Python side: invalid multi-client settings (see C13).
"""
from vf import realcode  # noqa: F401
from vf import family as fam
from props import shellsem_common as ss

PROPERTY = 'C04'
LEVEL = ss.LEVEL
FUNCTIONS = ['generated InitializePort<Port> (claim / release / std::ref lambdas)',
             'generated constructor (arbitered port in/out lambdas)',
             'MultiClientSelector::Index/Select/Deselect/CurrentClient/Arbitered/FinalConstruct',
             'MutexWrapped::operator() + RaiiLockDeleter', 'processing.initialize_port_claim_snippet',
             'processing.initialize_port_release_snippet', 'processing.stdref_in_event',
             'processing.reroute_multiclient_out_events']
ASSUMPTIONS = [
    'exclusive-access protocol: the component grants a claim only while nobody else holds one (otherwise "the '
    'holder" is not unique and the property is silent); a claim by another client while somebody holds is refused',
    'one step from every invariant-satisfying pre-state (selection == holder) covers histories of any length; the '
    'pre-state is reached by a real history (granted claim), so no unreachable state is used',
    'multi-client models of the family: claim/release literally named Claim/Release, and under other names with '
    'formals (Acquire/GiveBack next to an unrelated event called Release); 2 (quick) / 3 (thorough) clients',
    'trusted base as for C01 (clang AST, ShellSem intrinsics, mock runtime); findings are replayed on the '
    'g++-compiled program before they are reported',
]
OUTSIDE = 'more than 3 clients, interfaces outside the family, thread interleavings (C11)'
replay_custom = ss.replay_custom
evidence_extra = ss.evidence_extra
finding_key = ss.finding_key


def key_of(f) -> str:
    w = f.get('witness', {})
    pre, op, actor = w.get('pre_holder'), w.get('op'), w.get('actor')
    if pre is not None and op == 'release' and actor != pre and 'delivered to []' in f['what']:
        return 'C04:release-by-non-holder-clears-selection'
    text = f['what']
    for c in ('c0', 'c1', 'c2'):
        text = text.replace(c, 'cX')
    return text


def extra(tier, seed, scratch, log):
    return ss.run_prop('C04', 'mc_step', tier, seed, log, {'n_clients': 2 if tier == 'quick' else 3}, key_of,
                       only=lambda cp: cp[1].multiclient is not None)
