"""C19 — user text rendered as a comment can never become code.

Real code: cpp_gen.Comment.__init__/__str__, TextBlock.append/indent, Indentizer.to_list,
Builder.build/_create_headerfile/_create_sourcefile/_create_creator_info_overview,
support_files.generate_cpp_code.
"""
from typing import List
from vf import realcode  # noqa: F401
from vf.spec import H, pick
from vf import docgen, fast
from props.c17 import ref_split, ref_lines, BRK
from props.c18 import ref_rstrip

from dznpy.cpp_gen import Comment
from dznpy.text_gen import TextBlock
from dznpy.scoping import ns_ids_t
from dznpy.adv_shell import Builder, all_mts, all_sts_all_mts, MultiClientPortCfg
from dznpy.adv_shell.common import Configuration, FacilitiesOrigin

PROPERTY = 'C19'
LEVEL = 'model_checking'
FUNCTIONS = ['cpp_gen.Comment.__init__', 'cpp_gen.Comment.__str__', 'text_gen.TextBlock.append',
             'text_gen.TextBlock.indent', 'text_gen.Indentizer.to_list',
             'adv_shell.Builder.build', 'adv_shell.Builder._create_headerfile',
             'adv_shell.Builder._create_sourcefile', 'adv_shell.Builder._create_creator_info_overview',
             'support_files.generate_cpp_code']
ASSUMPTIONS = [
    "CrossHair's symbolic str model is faithful to CPython (counterexamples are replayed natively)",
    'a line of generated C++ is a comment line iff its first non-blank characters are "//"; physical '
    'lines of a generated file are separated by "\\n" (the only separator the generator emits); a C++ '
    'compiler ends a // comment at "\\n" (and "\\r"), both of which the text block splits on',
    'build-level harness: one fixed model (toaster-style, multi-client and plain configurations); only '
    'copyright / creator_info are symbolic',
]
OUTSIDE = ('comment text longer than the stated bound; non-string copyright/creator values; models other '
           'than the two fixed ones in the build-level harness')


def _expected_comment(lines: List[str]) -> str:
    out = ''
    for ln in lines:
        out += ref_rstrip('// ' + ln) + '\n'
    return out


def _all_physical_lines_are_comments(text: str) -> bool:
    """Split at EVERY line boundary (reference splitter): each piece must start with //."""
    if text == '':
        return True
    for piece in ref_split(text):
        if not piece.startswith('//'):
            return False
    return True


def h_comment(s: str) -> bool:
    """str(Comment(s)): every physical line starts with '//' and carries the original text; the
    object is unchanged by rendering; rendering twice is identical."""
    c = Comment(s)
    before = list(c.lines)
    if before != ref_split(s):
        return False
    txt = str(c)
    if txt != _expected_comment(before):
        return False
    if not _all_physical_lines_are_comments(txt):
        return False
    return c.lines == before and str(c) == txt


COMMENT_SHAPES = [
    lambda a, b: [a, b],
    lambda a, b: [a, '\n', b],
    lambda a, b: [[a], None, {'k': b}],
    lambda a, b: TextBlock([a, b]),
    lambda a, b: [a, '', [b, 'tail']],
    lambda a, b: ['head:', TextBlock(a).indent(), b],
]


def h_comment_shape(k: int, a: str, b: str) -> bool:
    """Nested content as comment text."""
    c = Comment(COMMENT_SHAPES[k](a, b))
    before = list(c.lines)
    if before != ref_lines(COMMENT_SHAPES[k](a, b)):
        return False
    txt = str(c)
    return (txt == _expected_comment(before) and _all_physical_lines_are_comments(txt)
            and c.lines == before)


def h_comment_extend(a: str, b: str) -> bool:
    """A rendered comment can be extended and rendered again."""
    c = Comment(a)
    first = str(c)
    c.append(b)
    second = str(c)
    la, lb = ref_split(a), ref_split(b)
    if not (first == _expected_comment(la) and second == _expected_comment(la + lb) and c.lines == la + lb):
        return False
    d = Comment(a)
    d_before = d
    d += b                                   # in-place extension keeps it a comment
    if d is not d_before or not isinstance(d, Comment) or str(d) != _expected_comment(la + lb):
        return False
    e = Comment(a) + b                       # a new block: plain text, the comment itself unchanged
    if e.lines != la + lb:
        return False
    # a comment that was rendered once and is then changed by any other route renders the new text
    g = Comment([a, '', ''])
    str(g)
    g.trim(end_only=True)
    want = list(la)
    while want and want[-1] == '':
        want.pop()
    if g.lines != want or str(g) != _expected_comment(want):
        return False
    g.lines = lb
    if str(g) != _expected_comment(lb):
        return False
    g.lines.extend(la)
    return str(g) == _expected_comment(lb + la)


# ---- build level -----------------------------------------------------------------------------------
_FC = docgen.parse(docgen.toaster_doc())


def _cfg(which: int, copyright_txt, creator):
    if which == 0:
        return Configuration(dezyne_filename='Toaster.dzn', ast_fc=_FC,
                             output_basename_suffix='AdvShell',
                             fqn_encapsulee_name=ns_ids_t('My.Project.ExclusiveToaster'),
                             ports_cfg=all_mts(MultiClientPortCfg('api', 'Claim', ns_ids_t('Ok'),
                                                                  'Release')),
                             facilities_origin=FacilitiesOrigin.CREATE, copyright=copyright_txt,
                             creator_info=creator)
    return Configuration(dezyne_filename='dir/Toaster.dzn', ast_fc=_FC, output_basename_suffix='Shell',
                         fqn_encapsulee_name=ns_ids_t('My.Project.Toaster'),
                         ports_cfg=all_sts_all_mts(), facilities_origin=FacilitiesOrigin.IMPORT,
                         copyright=copyright_txt, creator_info=creator,
                         support_files_ns_prefix=ns_ids_t('Pre.Fix'))


def _code_lines(text: str) -> List[str]:
    return [ln for ln in text.split('\n') if not ln.lstrip(' ').startswith('//')]


_BASE = [[(f.filename, _code_lines(f.contents)) for f in Builder().build(_cfg(w, 'C', None)).files]
         for w in (0, 1)]


fast.nativize_text_layer()   # concrete sub-computations of a build run untraced (same real code)


def h_build_comment_inputs(which: int, cr: str, creator: str, use_creator: bool) -> bool:
    """Two builds that differ only in copyright / creator_info differ only in comment lines, in
    every returned file; no physical line of user text escapes the comment."""
    res = Builder().build(_cfg(which, cr, creator if use_creator else None))
    got = [(f.filename, _code_lines(f.contents)) for f in res.files]
    if got != (_BASE[1] if which == 1 else _BASE[0]):
        return False
    for f in res.files[:2]:
        for ln in f.contents.split('\n'):
            for ch in BRK:                    # no other line boundary survives inside a line
                if ch in ln:
                    return False
    return True


def h_build_sym_copyright(which: int, cr: str, with_creator: bool) -> bool:
    """Symbolic copyright text, creator_info absent or fixed."""
    return h_build_comment_inputs(1 if which == 1 else 0, cr, 'x\n y', with_creator)


def h_build_sym_creator(which: int, creator: str) -> bool:
    """Symbolic creator_info text, fixed copyright."""
    return h_build_comment_inputs(1 if which == 1 else 0, '(c) X\nY', creator, True)


HOSTILE = ['C', '', 'a\nint x;', 'a\r#define X 1', 'x\u2028y();', '*/ z', 'tail\\', '  lead', 'trail  ',
           '\n\nB\n', 'a\x0cb\x0bc', 'q\x1cr\x1ds\x1et\x85u\u2029v', '\t', '#include "x"', '// c', '\r\n']


def h_build_pool(which: int, ci: int, use_creator: bool, ki: int) -> bool:
    """Same as h_build_comment_inputs with copyright/creator drawn from a pool of hostile texts."""
    return h_build_comment_inputs(1 if which == 1 else 0, pick(HOSTILE, ci), pick(HOSTILE, ki), use_creator)


SPECS = [
    H('h_comment', 'wide', pre=['len(s) <= {N}'],
      quick=dict(N=3, ct=200, pt=30), thorough=dict(N=5, ct=1500, pt=60),
      shards=lambda p: [f'len(s) == {i}' for i in range(p['N'] + 1)],
      bounds='comment text = one unconstrained unicode str, len <= {N}'),
    H('h_comment_shape', 'wide', pre=['len(a) <= {N}', 'len(b) <= {N}'],
      quick=dict(N=1, ct=200, pt=30), thorough=dict(N=2, ct=1500, pt=60),
      shards=lambda p: [f'k == {i}' for i in range(len(COMMENT_SHAPES))],
      bounds='two unconstrained str (len <= {N}) in %d nesting shapes' % len(COMMENT_SHAPES)),
    H('h_comment_extend', 'wide', pre=['len(a) <= {N}', 'len(b) <= {N}'],
      quick=dict(N=1, ct=200, pt=30), thorough=dict(N=2, ct=1500, pt=60),
      bounds='two unconstrained str (len <= {N})'),
    H('h_build_sym_copyright', 'wide',
      pre=['0 <= which <= 1', 'len(cr) <= {N}'],
      quick=dict(N=1, ct=280, pt=100), thorough=dict(N=2, ct=1700, pt=300),
      shards=lambda p: [f'which == {w} and with_creator == {u} and len(cr) == {n}'
                        for w in (0, 1) for u in (False, True) for n in range(p['N'] + 1)],
      bounds='full Builder.build on 2 fixed models/configurations with symbolic copyright (unconstrained '
             'unicode, len <= {N}); creator_info None or a fixed two-line text'),
    H('h_build_sym_creator', 'wide',
      pre=['0 <= which <= 1', 'len(creator) <= {N}'],
      quick=dict(N=1, ct=280, pt=100), thorough=dict(N=2, ct=1700, pt=300),
      shards=lambda p: [f'which == {w} and len(creator) == {n}'
                        for w in (0, 1) for n in range(p['N'] + 1)],
      bounds='full Builder.build on 2 fixed models/configurations with symbolic creator_info '
             '(unconstrained unicode, len <= {N}); fixed copyright'),
    H('h_build_pool', 'deep',
      pre=['0 <= which <= 1', '0 <= ci < {P}', '0 <= ki < {P}'],
      quick=dict(P=8, ct=280, pt=60), thorough=dict(P=len(HOSTILE), ct=1500, pt=60),
      shards=lambda p: [f'which == {w} and ci == {c}' for w in (0, 1) for c in range(p['P'])],
      bounds='full Builder.build on 2 fixed models/configurations, copyright and creator_info (or None) '
             'from a pool of {P} hostile texts (embedded newlines/CR/U+2028/FF/VT/FS..., "*/", trailing '
             'backslash, preprocessor lines)'),
]
