"""C14 — name lookup returns exactly the declarations on the scope chain.

Real code: ast_view.find_fqn / find_any / FindResult, scoping.scope_resolution_order,
NamespaceIds.__post_init__/__add__/__iadd__/__str__, namespaceids_t, sum_namespaceids_items.
"""
from typing import List, Tuple
from vf import realcode  # noqa: F401
from vf.spec import H, Ob, pick
from vf.fast import run_native

from dznpy import ast
from dznpy.ast_view import find_fqn, find_any
from dznpy.scoping import (NamespaceIds, NamespaceIdsTypeError, NamespaceTree, namespaceids_t,
                           scope_resolution_order, sum_namespaceids_items)

PROPERTY = 'C14'
LEVEL = 'model_checking'
FUNCTIONS = ['ast_view.find_fqn', 'ast_view.find_any', 'ast_view.FindResult.__post_init__',
             'scoping.scope_resolution_order', 'scoping.NamespaceIds.__post_init__',
             'scoping.NamespaceIds.__add__', 'scoping.NamespaceIds.__iadd__',
             'scoping.namespaceids_t', 'scoping.sum_namespaceids_items']
ASSUMPTIONS = [
    'identifiers are meant to be opaque to the lookup code (compared with == only): the alphabet bounds the '
    'number of DISTINCT identifiers; it contains two identifiers of which one is a string prefix of the '
    'other (a, ab) so that string-wise comparison of joined names is caught',
    'deep harnesses fork on every int-coded choice (solver-checked) and then run the real lookup on '
    'the resulting concrete declarations',
    "wide identifier harnesses trust CrossHair's str/regex model; the regex itself is also decided for "
    'unbounded strings by a direct z3 query extracted from the source (cross-checked with cvc5)',
]
OUTSIDE = ('more than two declarations per model in the lookup harnesses (independence of elements is '
           'checked pairwise), namespaces deeper than 3, alphabets above 3 identifiers, identifier '
           'candidates longer than the stated bound in the CrossHair harnesses (the z3 query is unbounded)')

# 'a' is a string prefix of 'ab': lookups must compare identifiers, not joined strings
LETTERS = ['a', 'ab', 'b']
KINDS = ['components', 'enums', 'externs', 'foreigns', 'interfaces', 'subints', 'systems']
_ROOT = NamespaceTree()


def ids_of(code: int, letters: int, maxlen: int, allow_empty: bool) -> List[str]:
    """Decode an int into an identifier list over `letters` letters (length 0/1..maxlen)."""
    # enumerate: [] (if allowed), then all length-1, length-2 ... lists in lexicographic order
    pool: List[List[str]] = [[]] if allow_empty else []
    level: List[List[str]] = [[]]
    for _ in range(maxlen):
        level = [p + [LETTERS[i]] for p in level for i in range(letters)]
        pool += level
    return pick(pool, code)


def n_ids(letters: int, maxlen: int, allow_empty: bool) -> int:
    return sum(letters ** k for k in range(1, maxlen + 1)) + (1 if allow_empty else 0)


def mk_decl(kind: int, fqn: List[str]):
    ids = NamespaceIds(list(fqn))
    name = ast.ScopeName(NamespaceIds([fqn[-1]]))
    if kind == 0:
        return ast.Component(ids, _ROOT, name, ast.Ports([]))
    if kind == 1:
        return ast.Enum(ids, _ROOT, name, ast.Fields(['X']))
    if kind == 2:
        return ast.Extern(ids, _ROOT, name, ast.Data('int'))
    if kind == 3:
        return ast.Foreign(ids, _ROOT, name, ast.Ports([]))
    if kind == 4:
        return ast.Interface(ids, _ROOT, _ROOT, name, ast.Types([]), ast.Events([]))
    if kind == 5:
        return ast.SubInt(ids, _ROOT, name, ast.Range(0, 1))
    return ast.System(ids, _ROOT, name, ast.Ports([]), ast.Instances([]), ast.Bindings([]))


def mk_fc(decls) -> ast.FileContents:
    fc = ast.FileContents()
    for kind, fqn in decls:
        getattr(fc, KINDS[kind]).append(mk_decl(kind, fqn))
    # imports / file names that carry the same text must never be returned
    fc.imports.append(ast.Import('a'))
    fc.filenames.append(ast.Filename('a.b'))
    return fc


def ref_chain(scope: List[str], name: List[str]) -> List[List[str]]:
    """innermost -> outermost candidates"""
    return [scope[:k] + name for k in range(len(scope), -1, -1)]


def ref_find_fqn(decls, scope: List[str], name: List[str]):
    chain = ref_chain(scope, name)
    out = []
    for kind_i in range(len(KINDS)):                 # container order
        for kind, fqn in decls:
            if kind == kind_i and list(fqn) in chain:
                out.append((kind, list(fqn)))
    return out


def ref_find_any(decls, ids: List[str]):
    out = []
    for kind_i in range(len(KINDS)):
        for kind, fqn in decls:
            if kind == kind_i and len(fqn) >= len(ids) and list(fqn[len(fqn) - len(ids):]) == ids:
                out.append((kind, list(fqn)))
    return out


def _view(result) -> List[Tuple[int, List[str]]]:
    out = []
    for item in result.items:
        kind = [ast.Component, ast.Enum, ast.Extern, ast.Foreign, ast.Interface, ast.SubInt,
                ast.System].index(type(item))
        out.append((kind, list(item.fqn.items)))
    return out


def _lookup_case(decls, scope: List[str], name: List[str], none_scope: bool) -> bool:
    fc = mk_fc(decls)
    scope_ids = NamespaceIds(list(scope))
    name_ids = NamespaceIds(list(name))
    if none_scope and scope:
        return True
    got = find_fqn(fc, name_ids, None if none_scope else scope_ids)
    if _view(got) != ref_find_fqn(decls, scope, name):
        return False
    if scope_ids.items != scope or name_ids.items != name:       # arguments untouched
        return False
    # resolution order: innermost to outermost, calling scope not consumed
    order = scope_resolution_order(name_ids, None if none_scope else scope_ids)
    if [o.items for o in order] != ref_chain(scope, name) or scope_ids.items != scope:
        return False
    # suffix search
    any_got = find_any(fc, name_ids)
    if _view(any_got) != ref_find_any(decls, name):
        return False
    # each returned object is the stored declaration itself, once
    objs = [id(x) for x in got.items]
    return len(set(objs)) == len(objs)


def h_lookup_one(L: int, D: int, kind: int, dc: int, nc: int, sc: int, none_scope: bool) -> bool:
    """One declaration: every (declaration fqn, searched name, calling scope) over L letters, depth D."""
    k = pick(range(len(KINDS)), kind)
    fqn = ids_of(dc, L, D, False)
    name = ids_of(nc, L, D, False)
    scope = ids_of(sc, L, D, True)
    return run_native(_lookup_case, [(k, fqn)], scope, name, True if none_scope else False)


def h_lookup_two(L: int, D: int, k1: int, d1: int, k2: int, d2: int, nc: int, sc: int) -> bool:
    """Two declarations (any kinds incl. the same container, equal or different names): order,
    duplicates, independence of elements."""
    ka, kb = pick(range(len(KINDS)), k1), pick(range(len(KINDS)), k2)
    f1, f2 = ids_of(d1, L, D, False), ids_of(d2, L, D, False)
    name = ids_of(nc, L, D, False)
    scope = ids_of(sc, L, D, True)
    return run_native(_lookup_case, [(ka, f1), (kb, f2)], scope, name, False)


# ---- identifiers ---------------------------------------------------------------------------------
FIRST = 'abcdefghijklmnopqrstuvwxyzABCDEFGHIJKLMNOPQRSTUVWXYZ_'
REST = FIRST + '0123456789'


def ref_ident(s: str) -> bool:
    if len(s) == 0 or s[0] not in FIRST:
        return False
    for ch in s[1:]:
        if ch not in REST:
            return False
    return True


def h_ident(s: str) -> bool:
    """NamespaceIds([s]) is accepted exactly for valid identifiers; otherwise the documented error."""
    try:
        ns = NamespaceIds([s])
    except NamespaceIdsTypeError:
        return not ref_ident(s)
    return ref_ident(s) and ns.items == [s] and str(ns) == s


def h_nsids_t(s: str) -> bool:
    """namespaceids_t on an arbitrary string: notation handling, only valid identifiers handed out,
    dotted / '::' / list notations convert losslessly."""
    if s == '':
        exp = []
    elif '.' in s:
        exp = s.split('.')
    elif '::' in s:
        exp = s.split('::')
    else:
        exp = [s]
    valid = True
    for part in exp:
        if not ref_ident(part):
            valid = False
    try:
        ns = namespaceids_t(s)
    except NamespaceIdsTypeError:
        return not valid
    if not valid or ns.items != exp:
        return False
    dotted = str(ns)
    if dotted != '.'.join(exp):
        return False
    back1 = namespaceids_t(dotted)
    back2 = namespaceids_t('::'.join(exp))
    back3 = namespaceids_t(list(exp))
    return back1 == ns and back2 == ns and back3 == ns and namespaceids_t(ns) is ns


def _add_case(a: List[str], b: List[str], c: List[str]) -> bool:
    x, y, z = NamespaceIds(list(a)), NamespaceIds(list(b)), NamespaceIds(list(c))
    s = x + y
    if s.items != a + b or x.items != a or y.items != b or s is x:
        return False
    total = sum_namespaceids_items([x, y, z])
    if total.items != a + b + c or x.items != a or y.items != b or z.items != c:
        return False
    if sum_namespaceids_items([]).items != []:
        return False
    empty1 = namespaceids_t('')
    empty1 += y                                   # a client accumulating onto an empty NamespaceIds
    if namespaceids_t('').items != [] or namespaceids_t([]).items != [] or NamespaceIds().items != []:
        return False                              # ... must not change what the library hands out next
    if c and [o.items for o in scope_resolution_order(z, None)] != [c]:
        return False
    w = NamespaceIds(list(a))
    w2 = w
    w2 += y
    if w2 is not w or w.items != a + b or y.items != b:
        return False
    tree = NamespaceTree(NamespaceTree(NamespaceTree(), x) if a else NamespaceTree(), y) if b else \
        (NamespaceTree(NamespaceTree(), x) if a else NamespaceTree())
    if tree.fqn.items != a + b:
        return False
    if c:
        if tree.fqn_member_name(z).items != a + b + c or z.items != c:
            return False
    return x.items == a and y.items == b


def h_add(L: int, ac: int, bc: int, cc: int) -> bool:
    """+, +=, sum and NamespaceTree.fqn / fqn_member_name are concatenation and do not alias their
    operands (+= extends in place by design)."""
    a, b, c = ids_of(ac, L, 2, True), ids_of(bc, L, 2, True), ids_of(cc, L, 2, True)
    return run_native(_add_case, a, b, c)


SPECS = [
    H('h_lookup_one', 'deep',
      pre=['L == {L}', 'D == {D}', '0 <= kind < 7', '0 <= dc < {ND}', '0 <= nc < {ND}', '0 <= sc < {NS}'],
      quick=dict(L=2, D=3, ND=n_ids(2, 3, False), NS=n_ids(2, 3, True), ct=280, pt=30),
      thorough=dict(L=3, D=3, ND=n_ids(3, 3, False), NS=n_ids(3, 3, True), ct=1700, pt=30),
      shards=lambda p: ([f'kind == {k} and dc % 2 == {r}' for k in range(7) for r in range(2)] if p['L'] == 2
                       else [f'kind == {k} and dc % 8 == {r}' for k in range(7) for r in range(8)]),
      bounds='one declaration of each of the 7 kinds; declaration fqn, searched name (1..{D} ids) and '
             'calling scope (0..{D} ids, also None) exhaustively over a {L}-identifier alphabet'),
    H('h_lookup_two', 'deep',
      pre=['L == {L}', 'D == {D}', '0 <= k1 < 7', '0 <= k2 < 7', '0 <= d1 < {ND}', '0 <= d2 < {ND}',
           '0 <= nc < {ND}', '0 <= sc < {NS}', 'k1 in {KS}', 'k2 in {KS}'],
      quick=dict(L=2, D=2, ND=n_ids(2, 2, False), NS=n_ids(2, 2, True), KS='(0, 4)', ct=280, pt=30),
      thorough=dict(L=2, D=2, ND=n_ids(2, 2, False), NS=n_ids(2, 2, True), KS='(0, 1, 2, 3, 4, 5, 6)',
                    ct=1700, pt=30),
      shards=lambda p: [f'k1 == {a} and d1 == {b}' for a in eval(p['KS']) for b in range(p['ND'])],
      bounds='two declarations with kinds from {KS}, fqns/name (1..{D} ids) and scope (0..{D} ids) '
             'exhaustively over a {L}-identifier alphabet'),
    H('h_ident', 'wide', pre=['len(s) <= {N}'],
      quick=dict(N=3, ct=200, pt=30), thorough=dict(N=5, ct=1500, pt=60),
      shards=lambda p: [f'len(s) == {i}' for i in range(p['N'] + 1)],
      bounds='one unconstrained unicode identifier candidate, len <= {N}'),
    H('h_nsids_t', 'wide', pre=['len(s) <= {N}'],
      quick=dict(N=3, ct=250, pt=30), thorough=dict(N=5, ct=1700, pt=60),
      shards=lambda p: [f'len(s) == {i}' for i in range(p['N'] + 1)],
      bounds='one unconstrained unicode string (dotted / :: / single notation), len <= {N}'),
    H('h_add', 'deep', pre=['L == 2', '0 <= ac < 7', '0 <= bc < 7', '0 <= cc < 7'],
      quick=dict(ct=200, pt=30), thorough=dict(ct=600, pt=30),
      bounds='three identifier lists of 0..2 ids over 2 letters'),
]

SPEC_REGEX = '[a-zA-Z_][a-zA-Z0-9_]*'


def extra(tier, seed, scratch, log):
    """E2: the identifier regex, decided for strings of unbounded length by z3 (+ cvc5)."""
    import re
    from vf import regex_smt
    obs = []
    ob = Ob(name='regex_equivalence_unbounded', engine='z3', kind='smt', claim=True,
            verdict='inconclusive', bounds='identifier candidates of unbounded length', module='props.c14')
    try:
        fn, pat = regex_smt.extract_re_call(NamespaceIds.__post_init__)
        res = regex_smt.check_equivalence(fn, pat, SPEC_REGEX)
        ob.solver_queries, ob.solver_s = 1, res['solver_s']
        other = regex_smt.cross_check_cvc5(res['smt2'])
        ob.detail = f're.{fn}({pat!r}) vs {SPEC_REGEX!r}: z3={res["result"]} cvc5={other}'
        if res['result'] == 'unsat' and other in ('unsat', 'unavailable', 'unknown'):
            ob.verdict = 'confirmed'
        elif res['result'] == 'unsat' and other == 'sat':
            ob.detail += ' (solvers disagree)'
        elif res['result'] == 'sat':
            w = res['witness']
            ob.call = f'h_ident({w!r})'
            # replay on the real code (CPython re, real NamespaceIds)
            from vf.replay import run_replay
            rp = run_replay('props.c14', ob.call)
            if rp['ok'] is False:
                ob.verdict = 'refuted'
                ob.detail += f' witness {w!r} reproduces natively'
            else:
                ob.verdict = 'harness_error'
                ob.detail += f' witness {w!r} does NOT reproduce natively (encoding wrong)'
    except regex_smt.Unsupported as exc:
        ob.detail = f'regex construct outside the translated subset: {exc}'
    obs.append(ob)
    log(f'[z3] {ob.detail}')
    obs.append(native_sweep(log))
    return obs


SWEEP_ALPHABET = ['a', 'Z', '_', '0', chr(10), chr(13), ' ', '.', ':', chr(0xe9), chr(0x663), chr(0x2028)]


def native_sweep(log) -> Ob:
    """Validation of the trusted base, not a deciding step: CrossHair's regex model does not give `$`
    its match-before-a-final-newline meaning, so the identifier harnesses are backed by a native sweep
    of NamespaceIds over all strings of length <= 3 from a 12-character alphabet (incl. newline)."""
    import itertools
    ob = Ob(name='native_identifier_sweep', engine='native', kind='validation', claim=False,
            verdict='confirmed', module='props.c14',
            bounds='all strings of length <= 3 over %d characters' % len(SWEEP_ALPHABET))
    n = 0
    for k in range(0, 4):
        for tup in itertools.product(SWEEP_ALPHABET, repeat=k):
            s = ''.join(tup)
            n += 1
            if not h_ident(s) or not h_nsids_t(s):
                ob.verdict = 'refuted'
                ob.call = f'h_ident({s!r})' if not h_ident(s) else f'h_nsids_t({s!r})'
                ob.detail = f'native sweep: {ob.call} fails'
                log(f'[native] {ob.detail}')
                return ob
    ob.paths = n
    ob.validated = n
    ob.detail = f'{n} strings agree with the reference'
    return ob
