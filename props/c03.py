"""C03 — port configuration gives every exposed port exactly one semantics or is rejected.

Real code: PortSelect/PortsSemanticsCfg/PortsCfg (__post_init__, match), ast_view.portnames_t,
processing.create_dzn_elements (through Builder.build).
"""
from typing import Dict, List, Optional, Tuple
from vf import realcode  # noqa: F401
from vf.spec import H, pick
from vf.fast import run_native
from vf import docgen as dg

from dznpy.adv_shell import Builder, MultiClientPortCfg
from dznpy.adv_shell.common import Configuration, FacilitiesOrigin
from dznpy.adv_shell.port_selection import PortSelect, PortWildcard, PortsSemanticsCfg, PortsCfg
from dznpy.adv_shell.types import AdvShellError, RuntimeSemantics
from dznpy.adv_shell.core.processing import create_dzn_elements
from dznpy.ast_view import find_fqn
from dznpy.scoping import ns_ids_t

PROPERTY = 'C03'
LEVEL = 'model_checking'
FUNCTIONS = ['port_selection.PortSelect.__post_init__', 'port_selection.PortsSemanticsCfg.__post_init__',
             'port_selection.PortsSemanticsCfg.match', 'port_selection.PortsCfg.__post_init__',
             'port_selection.PortsCfg.match', 'ast_view.portnames_t',
             'processing.create_dzn_elements', 'adv_shell.Builder.build']
ASSUMPTIONS = [
    'port names are opaque to this code (== / hash only): the pool size bounds the number of distinct '
    'names, not their spelling',
    'every harness forks on the int-coded choices (solver-checked feasibility) and then runs the real '
    'code on the resulting concrete selection/port sets',
    'explicitly naming an INJECTED requires port is treated as "don\'t care" (the property only says such '
    'ports never need a semantics): any documented outcome is accepted there, internal errors are not',
    'the model is a component whose ports all use one trivial interface; a multi-client setting is present only '
    'in h_build_mc (a multi-client port must resolve to MTS like any other port would; its own rejection '
    'message may be the ValueError raised by DznPortItf)',
]
OUTSIDE = ('more than 2 provides and 2 requires ports, selection name pools above 4 names, combined '
           'provides x requires variation beyond the representative partner configurations')

WILD = [PortWildcard.REMAINING, PortWildcard.ALL, PortWildcard.NONE]


def subsets(pool: List[str]) -> List[frozenset]:
    out = []
    for mask in range(1, 1 << len(pool)):
        out.append(frozenset(pool[i] for i in range(len(pool)) if mask >> i & 1))
    return out


def options(pool: List[str]):
    """Selection options: three wildcards + every non-empty subset of the pool."""
    return [('W', w) for w in WILD] + [('S', s) for s in subsets(pool)]


def mk_select(opt) -> PortSelect:
    return PortSelect(opt[1] if opt[0] == 'W' else set(opt[1]))


# ---- reference resolver (the property, literally) ---------------------------------------------------

def names(opt) -> frozenset:
    return opt[1] if opt[0] == 'S' else frozenset()


def nonempty(opt) -> bool:
    return opt[0] == 'S' or opt[1] != PortWildcard.NONE


def ref_side(sts, mts, ports: frozenset):
    """-> ('reject', why) | ('ok', {port: semantics or None})"""
    if sts == mts:
        return ('reject', 'equal')
    if names(sts) & names(mts):
        return ('reject', 'overlap')
    if (sts == ('W', PortWildcard.ALL) and nonempty(mts)) or \
            (mts == ('W', PortWildcard.ALL) and nonempty(sts)):
        return ('reject', 'all+something')
    if (names(sts) | names(mts)) - ports:
        return ('reject', 'unknown name')
    out = {}
    for p in ports:
        if p in names(sts):
            out[p] = RuntimeSemantics.STS
        elif p in names(mts):
            out[p] = RuntimeSemantics.MTS
        elif sts[0] == 'W' and sts[1] != PortWildcard.NONE:
            out[p] = RuntimeSemantics.STS
        elif mts[0] == 'W' and mts[1] != PortWildcard.NONE:
            out[p] = RuntimeSemantics.MTS
        else:
            out[p] = None
    return ('ok', out)


# all tables are built natively at import: objects created while CrossHair is tracing (sets in
# particular) are CrossHair container types and would keep the real code under the tracer
SIDE_TABLES = [(options(pool), [frozenset()] + subsets(pool[:-1] if len(pool) > 1 else pool))
               for pool in (['a'], ['a', 'b'], ['a', 'b', 'c'], ['a', 'b', 'c', 'd'])]
PROV_OPTS = [options(pool) for pool in (['p0', 'zz'], ['p0', 'p1', 'zz'], ['p0', 'p1', 'r0', 'zz'])]
REQ_OPTS = [options(pool) for pool in (['r0', 'zz'], ['r0', 'r1', 'zz'], ['r0', 'r1', 'p0', 'zz'])]
PI_SETS = [frozenset(), frozenset(['p0'])]
RI_STATES = [(0, 0), (1, 0), (2, 0)]


# ---- H1: one side ---------------------------------------------------------------------------------

def _side_case(sts, mts, ports: frozenset) -> bool:
    ref = ref_side(sts, mts, ports)
    try:
        cfg = PortsSemanticsCfg(mk_select(sts), mk_select(mts))
    except AdvShellError:
        return ref[0] == 'reject' and ref[1] in ('equal', 'overlap', 'all+something')
    if ref[0] == 'reject' and ref[1] != 'unknown name':
        return False
    arg = set(ports)
    try:
        got = cfg.match(arg, 'x')
    except AdvShellError:
        return ref == ('reject', 'unknown name')
    if ref[0] == 'reject' or arg != set(ports):
        return False
    return got == {p: s for p, s in ref[1].items() if s is not None}


def h_side(n: int, si: int, mi: int, pm: int) -> bool:
    """PortsSemanticsCfg + match on one side: pool of n names (last one never a port)."""
    opts, portsets = pick(SIDE_TABLES, n - 1)
    return run_native(_side_case, pick(opts, si), pick(opts, mi), pick(portsets, pm))


# ---- H2: whole configuration through Builder.build -------------------------------------------------
P_NAMES = ['p0', 'p1']
R_NAMES = ['r0', 'r1']
# provides ports present: subsets of P_NAMES; requires ports: each absent / normal / injected
P_SETS = [frozenset()] + subsets(P_NAMES)
R_STATES = [(a, b) for a in range(3) for b in range(3)]   # 0 absent, 1 normal, 2 injected
_FC_CACHE: Dict[Tuple, object] = {}


def model(pset: frozenset, rstate: Tuple[int, int]):
    key = (pset, rstate)
    if key not in _FC_CACHE:
        ports = [dg.port(n, ['I'], 'provides') for n in P_NAMES if n in pset]
        for n, st in zip(R_NAMES, rstate):
            if st:
                ports.append(dg.port(n, ['I'], 'requires', injected=(st == 2)))
        _FC_CACHE[key] = dg.parse(dg.root([dg.interface(['I'], [dg.event('e'), dg.event('o', 'out')]),
                                          dg.component(['C'], ports)]))
    return _FC_CACHE[key]


def _build_case(p_sts, p_mts, r_sts, r_mts, pset: frozenset, rstate: Tuple[int, int]) -> bool:
    fc = model(pset, rstate)
    rset = frozenset(n for n, st in zip(R_NAMES, rstate) if st)
    injected = frozenset(n for n, st in zip(R_NAMES, rstate) if st == 2)
    ref_p = ref_side(p_sts, p_mts, pset)
    ref_r = ref_side(r_sts, r_mts, rset)
    dont_care = bool((names(r_sts) | names(r_mts)) & injected)
    expect_ok = ref_p[0] == 'ok' and ref_r[0] == 'ok' and not (nonempty(p_sts) and nonempty(p_mts))
    if expect_ok:
        for p in pset:
            if ref_p[1][p] is None:
                expect_ok = False
        for r in rset - injected:
            if ref_r[1][r] is None:
                expect_ok = False
    try:
        ports_cfg = PortsCfg(PortsSemanticsCfg(mk_select(p_sts), mk_select(p_mts)),
                             PortsSemanticsCfg(mk_select(r_sts), mk_select(r_mts)))
        cfg = Configuration('M.dzn', fc, 'Shell', ns_ids_t('C'), ports_cfg, FacilitiesOrigin.CREATE, 'c')
        result = Builder().build(cfg)
        elements = create_dzn_elements(cfg, fc, find_fqn(fc, ns_ids_t('C')).get_single_instance())
    except AdvShellError:
        return dont_care or not expect_ok          # rejected with the configuration error, no files
    if dont_care:
        return True
    if not expect_ok:
        return False
    if len(result.files) != 8:
        return False
    got_p = {p.port.name: p.semantics for p in elements.provides_ports}
    got_r = {p.port.name: p.semantics for p in elements.requires_ports}
    return got_p == dict(ref_p[1]) and got_r == {r: ref_r[1][r] for r in rset - injected}


PARTNER_R = [(('W', PortWildcard.NONE), ('W', PortWildcard.ALL), (1, 0)),
             (('S', frozenset(['r0'])), ('W', PortWildcard.REMAINING), (1, 2)),
             (('W', PortWildcard.ALL), ('W', PortWildcard.NONE), (0, 0))]
PARTNER_P = [(('W', PortWildcard.ALL), ('W', PortWildcard.NONE), frozenset(['p0'])),
             (('W', PortWildcard.NONE), ('S', frozenset(['p0', 'p1'])), frozenset(['p0', 'p1'])),
             (('W', PortWildcard.NONE), ('W', PortWildcard.REMAINING), frozenset())]


def h_build_provides(n: int, si: int, mi: int, pi: int, partner: int) -> bool:
    """Vary the provides side exhaustively (pool: p0, p1, the requires port r0, unknown zz)."""
    opts = pick(PROV_OPTS, n - 2)
    r_sts, r_mts, rstate = pick(PARTNER_R, partner)
    return run_native(_build_case, pick(opts, si), pick(opts, mi), r_sts, r_mts,
                      pick(P_SETS, pi), rstate)


def h_build_requires(n: int, si: int, mi: int, ri: int, partner: int) -> bool:
    """Vary the requires side exhaustively incl. injected ports (pool: r0, r1, provides port p0, zz)."""
    opts = pick(REQ_OPTS, n - 2)
    p_sts, p_mts, pset = pick(PARTNER_P, partner)
    return run_native(_build_case, p_sts, p_mts, pick(opts, si), pick(opts, mi), pset,
                      pick(R_STATES, ri))


# ---- H3: the provides side in the presence of a multi-client port setting ------------------------------
_MC_CACHE: Dict[frozenset, object] = {}


def mc_model(pset: frozenset):
    if pset not in _MC_CACHE:
        ports = [dg.port(n, ['I'], 'provides') for n in P_NAMES if n in pset]
        _MC_CACHE[pset] = dg.parse(dg.root([
            dg.enum(['Res'], ['Ok', 'No']),
            dg.interface(['I'], [dg.event('Claim', 'in', ['Res']), dg.event('Release'), dg.event('e'),
                                 dg.event('o', 'out')]),
            dg.component(['C'], ports)]))
    return _MC_CACHE[pset]


def _build_mc_case(p_sts, p_mts, pset: frozenset, mcport: str) -> bool:
    fc = mc_model(pset)
    ref_p = ref_side(p_sts, p_mts, pset)
    expect_ok = ref_p[0] == 'ok' and not (nonempty(p_sts) and nonempty(p_mts)) and mcport in pset
    if expect_ok:
        for p in pset:
            if ref_p[1][p] is None:
                expect_ok = False
        # a multi-client port is served through the dispatcher: it must be an MTS port, and being the
        # multi-client port does not give a port a semantics by itself
        if expect_ok and ref_p[1][mcport] != RuntimeSemantics.MTS:
            expect_ok = False
    try:
        ports_cfg = PortsCfg(PortsSemanticsCfg(mk_select(p_sts), mk_select(p_mts)),
                             PortsSemanticsCfg(mk_select(('W', PortWildcard.NONE)), mk_select(('W', PortWildcard.ALL))),
                             MultiClientPortCfg(mcport, 'Claim', ns_ids_t('Ok'), 'Release'))
        cfg = Configuration('M.dzn', fc, 'Shell', ns_ids_t('C'), ports_cfg, FacilitiesOrigin.CREATE, 'c')
        result = Builder().build(cfg)
        elements = create_dzn_elements(cfg, fc, find_fqn(fc, ns_ids_t('C')).get_single_instance())
    except AdvShellError:
        return not expect_ok
    except ValueError as exc:          # DznPortItf's own post-check (explicit raise with a message)
        return (not expect_ok) and 'only allowed for MTS ports' in str(exc)
    if not expect_ok or len(result.files) != 8:
        return False
    got_p = {p.port.name: p.semantics for p in elements.provides_ports}
    got_mc = {p.port.name for p in elements.provides_ports if p.multiclient is not None}
    return got_p == dict(ref_p[1]) and got_mc == {mcport}


MC_OPTS = options(['p0', 'p1', 'zz'])


def h_build_mc(si: int, mi: int, pi: int, mc: int) -> bool:
    """Provides selections x provides port sets with a multi-client setting on p0 / p1 / an unknown port."""
    return run_native(_build_mc_case, pick(MC_OPTS, si), pick(MC_OPTS, mi), pick(P_SETS, pi),
                      pick(['p0', 'p1', 'zz'], mc))


SMALL = options(['p0']) + [('S', frozenset(['zz']))]
SMALL_R = options(['r0']) + [('S', frozenset(['zz']))]


def h_build_both(a: int, b: int, c: int, d: int, pi: int, ri: int) -> bool:
    """Both sides vary together at pool size 1 (+unknown): provides/requires coupling."""
    return run_native(_build_case, pick(SMALL, a), pick(SMALL, b), pick(SMALL_R, c), pick(SMALL_R, d),
                      pick(PI_SETS, pi), pick(RI_STATES, ri))


BIG = options(['p0', 'p1']) + [('S', frozenset(['zz']))]
BIG_R = options(['r0', 'r1']) + [('S', frozenset(['zz']))]


def h_build_both2(a: int, b: int, c: int, d: int, pi: int, ri: int) -> bool:
    """Both sides vary together at pool size 2 (+unknown)."""
    return run_native(_build_case, pick(BIG, a), pick(BIG, b), pick(BIG_R, c), pick(BIG_R, d),
                      pick(P_SETS, pi), pick(R_STATES, ri))


def _nopt(n: int) -> int:
    return 3 + (1 << n) - 1


SPECS = [
    H('h_side', 'deep', pre=['n == {N}', '0 <= si < {O}', '0 <= mi < {O}', '0 <= pm < {PS}'],
      quick=dict(N=4, O=_nopt(4), PS=8, ct=280, pt=30), thorough=dict(N=4, O=_nopt(4), PS=8, ct=1700, pt=30),
      shards=lambda p: [f'si == {i}' for i in range(p['O'])],
      bounds='one side: sts and mts each a wildcard or any non-empty subset of {N} names (one of them '
             'never a port), port set any subset of the other names'),
    H('h_build_provides', 'deep',
      pre=['n == {N}', '0 <= si < {O}', '0 <= mi < {O}', '0 <= pi < 4', '0 <= partner < 3'],
      quick=dict(N=4, O=_nopt(4), ct=280, pt=30), thorough=dict(N=4, O=_nopt(4), ct=1700, pt=30),
      shards=lambda p: [f'si == {i}' for i in range(p['O'])],
      bounds='Builder.build: provides selections over a {N}-name pool (incl. an unknown name and a '
             'requires-port name) x provides port sets of <= 2 ports x 3 representative requires sides'),
    H('h_build_requires', 'deep',
      pre=['n == {N}', '0 <= si < {O}', '0 <= mi < {O}', '0 <= ri < 9', '0 <= partner < 3'],
      quick=dict(N=4, O=_nopt(4), ct=280, pt=30), thorough=dict(N=4, O=_nopt(4), ct=1700, pt=30),
      shards=lambda p: [f'si == {i}' for i in range(p['O'])],
      bounds='Builder.build: requires selections over a {N}-name pool (incl. unknown and provides-port '
             'names) x each requires port absent/normal/injected x 3 representative provides sides'),
    H('h_build_mc', 'deep',
      pre=['0 <= si < {O}', '0 <= mi < {O}', '0 <= pi < 4', '0 <= mc < 3'],
      quick=dict(O=_nopt(3), ct=280, pt=30), thorough=dict(O=_nopt(3), ct=900, pt=30),
      shards=lambda p: [f'si == {i}' for i in range(p['O'])],
      bounds='Builder.build with a multi-client setting on p0 / p1 / an unknown port: provides selections over '
             'p0, p1 and an unknown name x provides port sets of <= 2 ports (interface with claim/release events)'),
    H('h_build_both', 'deep',
      pre=['0 <= a < 5', '0 <= b < 5', '0 <= c < 5', '0 <= d < 5', '0 <= pi < 2', '0 <= ri < 3'],
      quick=dict(ct=280, pt=30), thorough=dict(ct=600, pt=30),
      shards=lambda p: [f'a == {i} and b == {j}' for i in range(5) for j in range(5)],
      bounds='Builder.build: both sides vary together (wildcards, the one real name, an unknown name)'),
    H('h_build_both2', 'deep',
      pre=['0 <= a < 7', '0 <= b < 7', '0 <= c < 7', '0 <= d < 7', '0 <= pi < 4', '0 <= ri < 9'],
      quick=None, thorough=dict(ct=1700, pt=30),
      shards=lambda p: [f'a == {i} and b == {j}' for i in range(7) for j in range(7)],
      bounds='Builder.build: both sides vary together over 2 real names per side + an unknown name, all '
             'provides port sets and absent/normal/injected requires ports (86436 combinations)'),
]
