"""C10 — final construction detects every unbound boundary event.

ShellSem executes the generated FinalConstruct (and MultiClientSelector::FinalConstruct, the mock
ports' check_bindings) with one symbolic Boolean per user-bindable and component-side slot: on the
path that returns normally z3 must prove that every slot is bound; the parent pointer must be
recorded; after FinalConstruct no client can be registered.
"""
from vf import realcode  # noqa: F401
from vf import family as fam
from props import shellsem_common as ss

PROPERTY = 'C10'
LEVEL = ss.LEVEL
FUNCTIONS = ['generated FinalConstruct', 'MultiClientSelector::FinalConstruct/Index', 'ILog::check_bindings', 'mock port/component check_bindings', 'processing.create_final_construct_fn']
ASSUMPTIONS = [
    'program family: %d models x valid port configurations x facility origin x support namespace prefix = %d '
    'generated programs (vf/family.py); the quantifier over models is covered by this family only' % (len(fam.MODELS), len(fam.VALID)),
    'trusted base: clang-14 as front-end (typed AST), the ShellSem reading of C++ (vf/shellsem/machine.py) with '
    'library/runtime calls as intrinsics, the mock Dezyne runtime (cpp/mock_dzn) and the mock model header; the '
    'machine is validated on every run against the g++-compiled program (same scenario, traces must agree)',
    'scratch copies of generated headers get "#pragma once": none of them has an include guard (a C06 '
    'observation, not claimed), semantic content untouched',
    'an AST construct or callee outside the interpreted subset makes that program inconclusive (never a pass); '
    'findings are reported only after the g++-compiled program shows the same deviation',
]
OUTSIDE = ('models/configurations outside the family; C++ that clang rejects; behaviour of the real Dezyne runtime '
           'beyond the mocked contract')
finding_key = ss.finding_key
replay_custom = ss.replay_custom
evidence_extra = ss.evidence_extra


def extra(tier, seed, scratch, log):
    return ss.run_prop('C10', 'final_construct', tier, seed, log)
