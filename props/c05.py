"""C05 — parsing preserves every declaration of the Dezyne JSON AST with correct names.

Real code: DznJsonAst.process/parse_element, every parse_* function, NamespaceTree.fqn /
fqn_member_name.  The decoded document is injected (orjson.loads is outside the claim).
"""
from typing import List
from vf import realcode  # noqa: F401
from vf.spec import H, pick
from vf.fast import run_native
from vf import docgen as dg
from props.parser_common import ITEMS, ref_walk, unparse
from props.c14 import ref_ident

from dznpy.json_ast import DznJsonAst, DznJsonError
from dznpy.scoping import NamespaceIdsTypeError

PROPERTY = 'C05'
LEVEL = 'model_checking'
FUNCTIONS = ['json_ast.DznJsonAst.process', 'json_ast.DznJsonAst.parse_element', 'json_ast.parse_* (all)',
             'json_ast.ElementHelper.*', 'scoping.NamespaceTree.fqn', 'scoping.NamespaceTree.fqn_member_name',
             'scoping.NamespaceIds.__post_init__']
ASSUMPTIONS = [
    'byte-level JSON decoding (orjson, a C extension) is bypassed: documents are injected as decoded '
    'Python values',
    'document family: <= 3 root items drawn from a library of %d item templates (every declaration kind, '
    'unknown classes, non-dict elements, namespaces with 1-2 id names nested to depth 3, re-opened '
    'namespaces, names reused across scopes); each path fixes the item choice (solver-checked) and runs '
    'the real parser on that document' % len(ITEMS),
    'the reference walker in props/parser_common.py is the specification of "one entry per declaration, '
    'fully qualified by its enclosing namespaces, payload as written, source order"',
]
OUTSIDE = ('documents outside the family (more root items, deeper nesting), byte-level decoding, '
           'identifier / payload strings longer than the bound in the wide harnesses')


def _doc_case(items: List) -> bool:
    doc = dg.root(items, comment='// c')
    fc = dg.parse(doc)
    return unparse(fc) == ref_walk(doc)


def h_doc(n: int, i0: int, i1: int, i2: int) -> bool:
    """A document of n root items: the parse result equals the reference walk of the document."""
    items = [pick(ITEMS, i) for i in [i0, i1, i2][:n]]
    return run_native(_doc_case, items)


def h_ident_wide(s: str) -> bool:
    """A symbolic identifier as declaration / namespace name: fully qualified by the enclosing
    namespaces when valid, the identifier error otherwise."""
    doc = dg.root([dg.namespace(['N', s], [dg.component([s], []),
                                          dg.interface(['I'], types=[dg.enum([s], ['F'])])])])
    try:
        fc = dg.parse(doc)
    except NamespaceIdsTypeError:
        return not ref_ident(s)
    if not ref_ident(s):
        return False
    return (fc.components[0].fqn.items == ['N', s, s] and fc.enums[0].fqn.items == ['N', s, 'I', s]
            and fc.interfaces[0].fqn.items == ['N', s, 'I'] and len(fc.components) == 1
            and len(fc.enums) == 1 and unparse(fc) == ref_walk(doc))


def h_payload_wide(s: str, t: str) -> bool:
    """Free-form strings (port/event/formal/instance names, data values, fields, import and file
    names) are preserved exactly as written."""
    doc = dg.root([
        dg.import_(s), dg.filename(t), dg.extern(['X'], s), dg.enum(['E'], [s, t]),
        dg.component(['C'], [dg.port(s, ['I'], 'provides'), dg.port(t, ['I'], 'requires', True)]),
        dg.interface(['I'], [dg.event(s, 'in', ['E'], [dg.formal(t, ['X'], 'out')]), dg.event(t, 'out')]),
        dg.system(['S'], [], [dg.instance(s, ['C'])], [dg.binding(dg.endpoint(s, t), dg.endpoint(t))]),
    ], comment=s)
    fc = dg.parse(doc)
    return unparse(fc) == ref_walk(doc)


SPECS = [
    H('h_doc', 'deep', pre=['0 <= n <= {I}', '0 <= i0 < {K}', '0 <= i1 < {K}', '0 <= i2 < {K}'],
      quick=dict(I=2, K=len(ITEMS), ct=280, pt=30), thorough=dict(I=3, K=len(ITEMS), ct=1700, pt=30),
      shards=lambda p: [f'i0 == {i}' for i in range(p['K'])],
      bounds='documents of <= {I} root items from the {K}-item library (see assumptions)'),
    H('h_ident_wide', 'wide', pre=['len(s) <= {N}'],
      quick=dict(N=3, ct=250, pt=30), thorough=dict(N=4, ct=1700, pt=60),
      shards=lambda p: [f'len(s) == {i}' for i in range(p['N'] + 1)],
      bounds='one unconstrained unicode identifier (len <= {N}) used as namespace, component and nested '
             'enum name'),
    H('h_payload_wide', 'wide', pre=['len(s) <= {N}', 'len(t) <= {N}'],
      quick=dict(N=2, ct=250, pt=30), thorough=dict(N=4, ct=1700, pt=60),
      bounds='two unconstrained unicode strings (len <= {N}) in every free-form string position'),
]
