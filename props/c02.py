"""C02 — each port runs under exactly the runtime semantics it was configured with.

Same ShellSem execution as C01 with the machine tracking execution context (inside a closure run by
dzn::shell / drained from the pump, or not) and object lifetimes: MTS provides in-events must run in
dispatcher context and return the reply; MTS requires out-events must be queued (exactly one
closure), return at once and later run with the values at call time although the caller's frame is
gone (by-reference captures of in-formals surface as reads of dead locations); accessor types and
the identity of the port handed out are read from the clang-resolved AST.
"""
from vf import realcode  # noqa: F401
from vf import family as fam
from props import shellsem_common as ss

PROPERTY = 'C02'
LEVEL = ss.LEVEL
FUNCTIONS = ['generated constructor lambdas (captures from the closure class fields)', 'generated accessors (clang-resolved return types)', 'dzn::shell / dzn::pump::operator() intrinsics', 'processing.create_cpp_portitf', 'processing.reroute_in_events', 'processing.reroute_out_events', 'common.CppPorts.mts_ports/sts_ports']
ASSUMPTIONS = [
    'program family: %d models x valid port configurations x facility origin x support namespace prefix = %d '
    'generated programs (vf/family.py); the quantifier over models is covered by this family only' % (len(fam.MODELS), len(fam.VALID)),
    'trusted base: clang-14 as front-end (typed AST), the ShellSem reading of C++ (vf/shellsem/machine.py) with '
    'library/runtime calls as intrinsics, the mock Dezyne runtime (cpp/mock_dzn) and the mock model header; the '
    'machine is validated on every run against the g++-compiled program (same scenario, traces must agree)',
    'scratch copies of generated headers get "#pragma once": none of them has an include guard (a C06 '
    'observation, not claimed), semantic content untouched',
    'an AST construct or callee outside the interpreted subset makes that program inconclusive (never a pass); '
    'findings are reported only after the g++-compiled program shows the same deviation',
]
OUTSIDE = ('models/configurations outside the family; C++ that clang rejects; behaviour of the real Dezyne runtime '
           'beyond the mocked contract')
finding_key = ss.finding_key
replay_custom = ss.replay_custom
evidence_extra = ss.evidence_extra


def extra(tier, seed, scratch, log):
    return ss.run_prop('C02', 'routing_c02', tier, seed, log)
