#ifndef VF_MOCK_DZN_LOCATOR_HH
#define VF_MOCK_DZN_LOCATOR_HH
#include <map>
#include <stdexcept>
#include <string>
#include <typeinfo>
namespace dzn {
struct locator
{
    std::map<std::string, const void*> services;
    locator clone() const { return locator(*this); }
    template <typename T> locator& set(T& t) { services[typeid(T).name()] = &t; return *this; }
    template <typename T> T* try_get() const
    {
        auto it = services.find(typeid(T).name());
        return it == services.end() ? nullptr : const_cast<T*>(static_cast<const T*>(it->second));
    }
    template <typename T> T& get() const
    {
        T* p = try_get<T>();
        if (p == nullptr) throw std::runtime_error("locator: service not found");
        return *p;
    }
};
} // namespace dzn
#endif
