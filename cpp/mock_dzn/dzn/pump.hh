#ifndef VF_MOCK_DZN_PUMP_HH
#define VF_MOCK_DZN_PUMP_HH
#include <deque>
#include <functional>
namespace dzn {
// Deterministic mock dispatcher: posted closures are queued; the test driver drains them.
struct pump
{
    std::deque<std::function<void()>> queue;
    int in_dispatcher = 0;       // > 0 while a closure runs in the dispatcher's context
    long executed = 0;
    void operator()(const std::function<void()>& e) { queue.push_back(e); }
    void drain()
    {
        while (!queue.empty())
        {
            auto f = queue.front();
            queue.pop_front();
            ++in_dispatcher; f(); --in_dispatcher; ++executed;
        }
    }
};
// dzn::shell: run the closure in the dispatcher's context, block until done, hand back its result.
template <typename L>
auto shell(dzn::pump& p, L&& l) -> decltype(l())
{
    struct guard { dzn::pump& p; guard(dzn::pump& q) : p(q) { ++p.in_dispatcher; } ~guard() { --p.in_dispatcher; ++p.executed; } } g(p);
    return l();
}
} // namespace dzn
#endif
