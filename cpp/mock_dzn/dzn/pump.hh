#ifndef VF_MOCK_DZN_PUMP_HH
#define VF_MOCK_DZN_PUMP_HH
#include <deque>
#include <functional>
#ifdef VF_THREADED
#include <mutex>
extern void vf_gate(const char* tag);      // provided by the threaded replay driver
#endif
namespace dzn {
// Deterministic mock dispatcher: posted closures are queued; the test driver drains them.
struct pump
{
    std::deque<std::function<void()>> queue;
    int in_dispatcher = 0;       // > 0 while a closure runs in the dispatcher's context
    long executed = 0;
#ifdef VF_THREADED
    std::mutex token;            // the dispatcher serialises closures: whoever runs one holds the token
#endif
    void operator()(const std::function<void()>& e) { queue.push_back(e); }
    void drain()
    {
        while (!queue.empty())
        {
            auto f = queue.front();
            queue.pop_front();
            ++in_dispatcher; f(); --in_dispatcher; ++executed;
        }
    }
};
// dzn::shell: run the closure in the dispatcher's context, block until done, hand back its result.
#ifdef VF_THREADED
// threaded replay: the closure runs inline on the calling thread while it holds the dispatcher token
// (re-entrant for the thread that holds it)
inline thread_local int vf_token_depth = 0;
struct vf_token_guard
{
    dzn::pump& p; bool outer;
    vf_token_guard(dzn::pump& q) : p(q), outer(vf_token_depth == 0)
    {
        if (outer) { vf_gate("dispatcher-wait"); p.token.lock(); ++p.in_dispatcher; }
        ++vf_token_depth;
    }
    ~vf_token_guard()
    {
        --vf_token_depth;
        if (outer) { --p.in_dispatcher; ++p.executed; p.token.unlock(); }
    }
};
template <typename L>
auto shell(dzn::pump& p, L&& l) -> decltype(l())
{
    vf_token_guard g(p);
    return l();
}
template <typename L>
void run_on_dispatcher(dzn::pump& p, L&& l)
{
    vf_token_guard g(p);
    l();
}
#else
template <typename L>
auto shell(dzn::pump& p, L&& l) -> decltype(l())
{
    struct guard { dzn::pump& p; guard(dzn::pump& q) : p(q) { ++p.in_dispatcher; } ~guard() { --p.in_dispatcher; ++p.executed; } } g(p);
    return l();
}
#endif
} // namespace dzn
#endif
