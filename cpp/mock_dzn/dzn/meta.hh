// Mock of the Dezyne C++ runtime API (subset used by dznpy advanced shells). Part of /verif (ShellSem).
#ifndef VF_MOCK_DZN_META_HH
#define VF_MOCK_DZN_META_HH
#include <functional>
#include <stdexcept>
#include <string>
#include <vector>
namespace dzn {
struct meta;
struct component;
namespace port {
struct meta
{
    struct { std::string name; const void* port; const dzn::component* component; const dzn::meta* meta; } provide;
    struct { std::string name; const void* port; const dzn::component* component; const dzn::meta* meta; } require;
};
} // namespace port
struct meta
{
    std::string name;
    std::string type;
    const meta* parent;
    std::vector<const port::meta*> ports_connected;
    std::vector<const meta*> children;
    std::vector<std::function<void()>> ports_check_bindings;
};
struct binding_error : public std::runtime_error
{
    binding_error(const port::meta& m, const std::string& msg)
        : std::runtime_error("not connected: " + m.provide.name + "." + m.require.name + "." + msg) {}
};
} // namespace dzn
#endif
