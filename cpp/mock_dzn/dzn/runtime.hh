#ifndef VF_MOCK_DZN_RUNTIME_HH
#define VF_MOCK_DZN_RUNTIME_HH
#include <dzn/meta.hh>
#include <dzn/locator.hh>
namespace dzn {
struct runtime { int dummy = 0; };
struct component { };
template <typename P, typename R> void connect(P& provided, R& required) { (void)provided; (void)required; }
} // namespace dzn
#endif
