#!/bin/bash
# Like seed_eval.sh but on a scratch worktree (VF_REPO) instead of /repo, so that it can run while /repo is busy.
# usage: tools/seed_eval_wt.sh <PID> <patch.diff> <worktree> [tier]
set -u
PID=$1; PATCH=$2; WT=$3; TIER=${4:-quick}
VERIF=$(cd "$(dirname "$0")/.." && pwd)
git -C "$WT" checkout -q -- . ; git -C "$WT" apply "$PATCH" || { echo "patch does not apply"; exit 9; }
trap 'git -C "$WT" checkout -q -- .' EXIT
OUT=$(VF_REPO="$WT" "$VERIF/bin/check" "$PID" --tier "$TIER" 2>&1); RC=$?
echo "== $PID rc=$RC"
echo "$OUT" | grep -E "^VIOLATION|^KNOWN-FINDING|^HARNESS-ERROR|claim obligations" | head -6 | cut -c1-300
echo "$OUT" | grep -A1 "^VIOLATION" | grep -v "^VIOLATION\|^--" | head -2 | cut -c1-300
