#!/bin/bash
# Confirm a sub-agent's seeded change in its scratch worktree: tests still pass with it, the demo
# fails with it and passes without it.  usage: tools/seed_confirm.sh <PID> <mN>
PID=$1; M=$2; WT=/tmp/wt_$PID; OUT=/tmp/out_$PID/$M
cd $WT || exit 9
git checkout -q -- . ; git clean -qfd
git apply --check $OUT/patch.diff || { echo "patch does not apply"; exit 9; }
(cd $OUT && PYTHONPATH=$WT/src timeout 600 /venv/bin/python demo.py >/dev/null 2>&1); CLEAN=$?
git apply $OUT/patch.diff
T1=$(cd $WT && /venv/bin/python -m pytest -q -p no:cacheprovider --continue-on-collection-errors 2>&1 | tail -1)
T2=$(cd $WT/test && /venv/bin/python -m pytest -q -p no:cacheprovider --continue-on-collection-errors 2>&1 | tail -1)
(cd $OUT && PYTHONPATH=$WT/src timeout 600 /venv/bin/python demo.py >/tmp/demo_out_$PID.txt 2>&1); PATCHED=$?
git checkout -q -- . ; git clean -qfd
echo "$PID/$M demo_clean=$CLEAN demo_patched=$PATCHED | pinned: $T1 | src: $T2 | files: $(grep -c '^+++' $OUT/patch.diff) | $(tail -1 /tmp/demo_out_$PID.txt | cut -c1-100)"
