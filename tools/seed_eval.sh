#!/bin/bash
# Evaluate a seeded change: apply <patch> to /repo, run the quick (or given tier) check of <property>,
# undo the change straight afterwards.  usage: tools/seed_eval.sh <PID> <patch.diff> [tier] [extra PIDs...]
set -u
PID=$1; PATCH=$2; TIER=${3:-quick}; shift 3 2>/dev/null || shift 2
VERIF=$(cd "$(dirname "$0")/.." && pwd)
if ! git -C /repo diff --quiet; then echo "seed_eval: /repo has uncommitted changes, refusing"; exit 9; fi
git -C /repo apply "$PATCH" || { echo "seed_eval: patch does not apply"; exit 9; }
trap 'git -C /repo checkout -- . ; rm -rf "$VERIF/replays_seed_tmp"' EXIT
for P in $PID "$@"; do
  OUT=$("$VERIF/bin/check" "$P" --tier "$TIER" 2>&1); RC=$?
  echo "== $P rc=$RC"
  echo "$OUT" | grep -E "^VIOLATION|^KNOWN-FINDING|^HARNESS-ERROR|claim obligations" | head -8
  echo "$OUT" | grep -A1 "^VIOLATION" | grep -v "^VIOLATION\|^--" | head -3 | cut -c1-300
done
