#!/bin/bash
# Evaluate a behaviour-preserving change for false alarms: apply <patch> to /repo, run the quick tier of the
# given (default: all claimed) checks, undo the change.  usage: tools/benign_eval.sh <patch.diff> [PID...]
set -u
PATCH=$1; shift
VERIF=$(cd "$(dirname "$0")/.." && pwd)
PIDS=${*:-$(python3 -c "import json; print(' '.join(c['property_id'] for c in json.load(open('$VERIF/MANIFEST.json'))['checks']))")}
if ! git -C /repo diff --quiet; then echo "benign_eval: /repo has uncommitted changes, refusing"; exit 9; fi
git -C /repo apply "$PATCH" || { echo "benign_eval: patch does not apply"; exit 9; }
trap 'git -C /repo checkout -- .' EXIT
for P in $PIDS; do
  OUT=$("$VERIF/bin/check" "$P" --tier quick 2>&1); RC=$?
  echo "== $P rc=$RC $(echo "$OUT" | grep -E 'claim obligations' | tail -1)"
  if [ $RC -ne 0 ]; then echo "$OUT" | grep -E "^VIOLATION|^HARNESS-ERROR|inconclusive\]|harness_error\]" | head -6 | cut -c1-400; fi
done
