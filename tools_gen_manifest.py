#!/usr/bin/env python3
"""Regenerate MANIFEST.json from the table below (run by hand after adding a check)."""
import json, os
HERE = os.path.dirname(os.path.abspath(__file__))

CHECKS = {
 'C17': dict(
    cat='model_checking', ref='DESIGN.md §3 C17',
    text='Bounded symbolic execution (CrossHair/z3) of the real TextBlock/flatten/trim/chunk code against an '
         'independent character-table reference: every path confirmed for all unicode strings up to the stated '
         'length (1-2 symbolic strings, 14 nesting shapes) plus an int-coded structure family; counterexamples are '
         'replayed natively before being reported. Holds within bounds, nothing is claimed outside them.',
    note="Trusted: CrossHair's str model (splitlines etc.), z3, the reference splitter in props/c17.py. "
         'Bounds: len<=4 (quick) / <=6 (thorough) single string, two strings len<=2/3, pools as listed in evidence.',
    technique='symbolic execution of the real Python functions (CrossHair 0.0.110 + z3), per-path SMT, bounded string lengths'),
 'C18': dict(
    cat='model_checking', ref='DESIGN.md §3 C18',
    text='Bounded symbolic execution of the real Indentizer/TextBlock.indent code against a direct specification of '
         'the indenter for a generated family of 63 configurations (spaces 0-6/tab x none/all/first-only x glyph length 1-4): '
         'confirmed over all paths for every unicode line up to the stated length, and for <=3 lines over a class alphabet incl. '
         'header handling, list/string form agreement and repeated indentation.',
    note="Trusted: CrossHair's str model (strip, format padding), z3, the reference indenter in props/c18.py; glyphs are non-blank markers. "
         'A hunt harness with symbolic width/glyph is bug-hunting only.',
    technique='symbolic execution of the real Python functions (CrossHair + z3), one condition per indenter configuration'),
 'C19': dict(
    cat='model_checking', ref='DESIGN.md §3 C19',
    text='Bounded symbolic execution of the real Comment rendering (every unicode string up to the bound, 6 nesting shapes, '
         'extend-after-render) against the reference: every physical line - split at every line boundary Python knows - starts '
         'with // and carries the original text, object unchanged. Build level: the real Builder.build with symbolic copyright or '
         'creator_info (short) and with a pool of hostile texts: all files keep identical non-comment lines.',
    note="Trusted: CrossHair's str model, z3; comment line = first non-blank chars are //; build-level harness uses 2 fixed models; "
         'concrete sub-computations of a build run untraced (vf/fast.py) - same real code, no stubs.',
    technique='symbolic execution of the real Python functions (CrossHair + z3) incl. full Builder.build with symbolic comment inputs'),
 'C20': dict(
    cat='model_checking', ref='DESIGN.md §3 C20',
    text='Bounded symbolic execution of the real cpp_gen building blocks: int-coded families of function/constructor/destructor '
         'descriptions (type pool incl. const/ref/pointer/template/default values, all prefix/cv/override/initialisation/contents/scope '
         'combinations) rendered by the real code and parsed back by a signature tokenizer; wide harnesses with symbolic names, '
         'parameter names, initialisers and contents; struct/class/namespace balance. The compile clause is not claimed.',
    note="Trusted: CrossHair's str model, z3, the tokenizer in props/c20.py. Symbolic default values cannot be exhausted (CrossHair "
         'realises symbolic fields of formatted objects): that harness is bug-hunting only. Compiler acceptance: not covered.',
    technique='symbolic execution of the real Python functions (CrossHair + z3); int-coded description families + symbolic strings'),
 'C14': dict(
    cat='model_checking', ref='DESIGN.md §3 C14',
    text='find_fqn/find_any/scope_resolution_order executed on every (declaration, name, scope) combination of a bounded family '
         '(one declaration of each kind over a 2/3-identifier alphabet to depth 3; two declarations to depth 2) against a '
         'set-comprehension specification; identifier validation decided for strings of unbounded length by a z3 regex-equivalence '
         'query extracted from the source AST (cross-checked with cvc5) and by CrossHair for all unicode strings up to the bound; '
         'notation round trips for all strings up to the bound.',
    note='Identifiers are opaque to lookup (== only): the alphabet bounds distinct identifiers, not spelling. Trusted: CrossHair str/regex '
         'model, z3 sequence/regex theory, the regex translator (vf/regex_smt.py; unsupported constructs => inconclusive).',
    technique='symbolic execution (CrossHair + z3) of the real lookup code over an int-coded family + direct z3 regex equivalence (E2)',
    engine='E1-crosshair + E2-z3-regex'),
 'C03': dict(
    cat='model_checking', ref='DESIGN.md §3 C03',
    text='Exhaustive bounded exploration, driven by CrossHair/z3 path search, of the real port-selection code: every pair of selections '
         '(wildcard or any non-empty subset of a 4-name pool incl. an unknown name and a name of the other side) against every port set, '
         'per side through PortsSemanticsCfg.match and whole configurations through the real Builder.build, compared with a reference '
         'resolver written from the property (accept/reject agreement, error type AdvShellError, resulting semantics, injected ports); the provides side also '
         'in the presence of a multi-client setting on either port or an unknown port (h_build_mc).',
    note='Names are opaque (==/hash), so the pool bounds distinct names. Each explored path fixes the int-coded choice vector (solver-checked) '
         'and runs the real code on it; explicit naming of an injected port is a stated don\'t-care. <=2 ports per side.',
    technique='symbolic path exploration (CrossHair + z3) over an int-coded configuration family, real code executed per path'),
 'C05': dict(
    cat='model_checking', ref='DESIGN.md §3 C05',
    text='The real parser run on every document of a bounded generated family (<=2/3 root items from a 65-item library covering every '
         'declaration kind, unknown classes, non-dict elements, 1-2 id namespaces nested to depth 3, re-opened namespaces, reused names) '
         'and compared with an independent walker over the document (per container: order, fully qualified names, parent scope, full payload); '
         'plus symbolic identifiers and free-form payload strings (all unicode up to the bound) through the real parse functions.',
    note='orjson byte decoding bypassed (decoded documents injected). Trusted: the reference walker/unparser in props/parser_common.py, CrossHair str/regex model.',
    technique='symbolic path exploration (CrossHair + z3) over an int-coded document family + symbolic strings through the real parser'),
 'C15': dict(
    cat='model_checking', ref='DESIGN.md §3 C15',
    text='Every single fault (delete key / retag <class> / replace by 17 JSON values) at each of the 308 nodes of a rich well-formed document, '
         'double faults in a sliding window, every string node replaced by a symbolic string, and the out-event rule (int-coded and with symbolic '
         'direction/reply strings): the real parser returns FileContents or raises only DznJsonError / NamespaceIdsTypeError.',
    note='orjson decoding bypassed; json_ast.print has an empty body during symbolic runs (printing realises symbolic values). Bounded to the listed fault kinds.',
    technique='symbolic path exploration (CrossHair + z3) over fault positions/kinds + symbolic strings through the real parser'),
 'C16': dict(
    cat='model_checking', ref='DESIGN.md §3 C16',
    text='Every history of <=5/6 operations over two parser slots and three documents (construct with JSON bytes, process) executed on the real public '
         'API: each process() result equals the parse of that document alone and earlier results never change; plus process() twice with symbolic '
         'identifier/payload strings.',
    note='History space enumerated by CrossHair path search (each path = one concrete history run natively incl. orjson). load_file() not exercised.',
    technique='symbolic path exploration (CrossHair + z3) over operation histories of the real parser API'),
 'C08': dict(
    cat='model_checking', ref='DESIGN.md §3 C08',
    text='Hash seed and set insertion order are turned into explicit solver-chosen variables (iteration-order permutation of every explicit '
         'name set, and of the sets the library builds from them): for 7 configuration templates x all permutations the rendered configuration '
         'text, match result and the complete Builder.build output (names, contents, hashes) must be identical. Counterexamples are confirmed '
         'by child interpreters under PYTHONHASHSEED=0..31. Every run also builds all 237 family cases under 8 (quick) / 32 (thorough) real hash seeds in fresh '
         'interpreters (validation of the iteration-order assumption for sets the library builds internally). MD5 clause: exploration only (hashlib is a C boundary).',
    note='Assumes seed/insertion order act only through set/dict iteration order; name `set` in two dznpy modules is bound to an order-controlled '
         'set subclass during the build harness. MD5 identity checked on realised witnesses against an independent RFC 1321 implementation.',
    technique='symbolic path exploration (CrossHair + z3) with iteration order as a symbolic permutation; replay across real hash seeds'),
 'C07': dict(
    cat='model_checking', ref='DESIGN.md §3 C07',
    text='For a bounded family of models (same-named interface/extern/enum declarations placed in 7 namespaces over a 2-letter alphabet, '
         'references spelled with 0-2 qualifiers, every referring scope) the real Builder.build is run and the C++ type in the generated '
         'header/source is compared with the reference look-up of the property: unique on-chain declaration of the right kind => its type, '
         'otherwise FindError / MultiClientCfgError; off-chain declarations never matter. Covers port types, event-parameter types (in and out '
         'events) and the claim-reply enum.',
    note='Namespace identifiers opaque (2-letter alphabet bounds distinct namespaces); <=2 (quick) / 3 (thorough) same-named declarations; '
         'well-formed models type parameters with externs.',
    technique='symbolic path exploration (CrossHair + z3) over an int-coded model family, real Builder.build per path, C++ type read from output'),
 'C12': dict(
    cat='model_checking', ref='DESIGN.md §3 C12',
    text='Histories replaced by one inductive step plus an invariant (no dznpy module/class state changes): from every valid case of the '
         'family and every single-fault variation, after Builder.build (returning or raising) the deep structural snapshot of model and '
         'configuration is unchanged, global state is unchanged, repeated builds (fresh and same Builder instance) give the same outcome, and '
         'support files equal stand-alone generation; plus ordered pairs of builds on one Builder instance vs a fresh build.',
    note='Induction argument uses C08 (determinism). Structural snapshot ignores object identity; process state outside dznpy modules not observed. '
         'Each path fixes the case by solver-checked branching and runs the real code.',
    technique='symbolic path exploration (CrossHair + z3) over the case family; inductive step with global-state invariant'),
 'C13': dict(
    cat='model_checking', ref='DESIGN.md §3 C13',
    text='Every valid case of the family (13 models x port configurations x origins x prefix = 237; x verbose on/off x creator_info present/absent) must build the complete 8-file set; every '
         'applicable single fault (28 kinds, x verbose on/off: encapsulee, port type, selections, every multi-client field) must fail with a diagnosed error; '
         'internal errors (KeyError/AttributeError/IndexError/RecursionError/interpreter TypeError) are violations. A hunt harness drives symbolic '
         'encapsulee/multi-client names through the real build (it found the out-event-as-release defect).',
    note='Diagnosed = library error types or an explicit `raise ValueError/TypeError` with message inside dznpy (lenient reading, stated). '
         'Well-formed models only; per-path timeout is the watchdog.',
    technique='symbolic path exploration (CrossHair + z3) over (case, fault) + symbolic-name hunt through the real Builder.build'),
 'C01': dict(
    cat='translation_validation', ref='DESIGN.md §2.3, §3 C01', engine='E3-shellsem',
    text="Every generated program of the family (real Builder.build output, regenerated each run) is executed symbolically from clang's typed AST: handlers on the far side of every slot, every slot invoked with fresh symbolic arguments; exactly-once delivery to the same-named port/event, argument integrity for ALL argument values (z3 validity), reply and out/inout propagation.",
    note='Trusted base: clang-14 typed AST, the ShellSem abstract machine (vf/shellsem) with library/runtime intrinsics, the mock Dezyne runtime and mock model header; the machine is validated against the g++-compiled program on sampled programs every run and every finding is replayed on the compiled program. Quantifier over models = the program family of vf/family.py (237 programs quick, 648 thorough); generated headers get #pragma once in the scratch copy.',
    technique='symbolic execution of the generated C++ (clang AST -> ShellSem abstract machine over z3 terms), per-program translation validation + g++ replay'),
 'C02': dict(
    cat='translation_validation', ref='DESIGN.md §2.3, §3 C02', engine='E3-shellsem',
    text='Same symbolic execution with execution-context and lifetime tracking: MTS provides in-events run in dispatcher context and return the reply; MTS requires out-events are queued once, return immediately and later run with the call-time values after the caller frame died (by-reference captures surface as dead reads); STS events never touch the dispatcher; accessor types (clang-resolved) and port identity match the configured semantics.',
    note='Trusted base: clang-14 typed AST, the ShellSem abstract machine (vf/shellsem) with library/runtime intrinsics, the mock Dezyne runtime and mock model header; the machine is validated against the g++-compiled program on sampled programs every run and every finding is replayed on the compiled program. Quantifier over models = the program family of vf/family.py (237 programs quick, 648 thorough); generated headers get #pragma once in the scratch copy.',
    technique='symbolic execution of the generated C++ (clang AST -> ShellSem), context/lifetime tracking, g++/ASan replay'),
 'C04': dict(
    cat='translation_validation', ref='DESIGN.md §2.3, §3 C04', engine='E3-shellsem',
    text='One inductive step of the multi-client selector from every pre-state (nobody / client k holds, reached by a real granted-claim history) x every operation (claim with symbolic reply, release, other in-event, by every client), executed on the generated InitializePort lambdas and the generated MultiClientSelector/MutexWrapped code; afterwards every component out-event must reach exactly the holder. Known finding: release by a non-holder clears the selection.',
    note='Trusted base: clang-14 typed AST, the ShellSem abstract machine (vf/shellsem) with library/runtime intrinsics, the mock Dezyne runtime and mock model header; the machine is validated against the g++-compiled program on sampled programs every run and every finding is replayed on the compiled program. Quantifier over models = the program family of vf/family.py (237 programs quick, 648 thorough); generated headers get #pragma once in the scratch copy.',
    technique='symbolic execution of the generated C++ (ShellSem), inductive step over selector states with symbolic claim reply, g++ replay'),
 'C11': dict(
    cat='model_checking', ref='DESIGN.md §2.3 (threads), §3 C11', engine='E3-shellsem-threads',
    text='Threaded ShellSem: the clang AST of the generated claim/release lambdas, out-event rerouting, MultiClientSelector and MutexWrapped is executed by the abstract machine with one thread per client (claim/use/release cycles) and an environment thread raising component out-events on the dispatcher; thread switches at std::mutex::lock, dispatcher entry, log sink and external handlers; every schedule within the preemption bound is executed (stateless search, choices decided through the z3-backed path oracle). Per schedule: data races by happens-before (vector clocks over mutexes and the dispatcher token; every location reachable from the selector object is watched), no deadlock, no dispatcher wait under the mutex, no C++ exception escaping on a thread, a granted client receives the out-events until it starts its own release. MutexWrapped protocol (exclusion, reset, scope exit) from its own AST. Known finding: a pending Deselect of the previous holder clears the new holder.',
    note='Bounds: 2 client threads + environment, quick: 1 cycle, 1 out-event, <= 2 preemptions (827 schedules per program); thorough: <= 3 preemptions, 2 cycles, 2 out-events. Dispatcher modelled as a token (closures serialised, run inline on the calling thread); sequentially consistent memory; the real Dezyne pump is outside the claim. Sampled schedules are re-executed on the g++-compiled program with gated real threads (same observable events required); findings are replayed there under the same schedule, races under ThreadSanitizer free runs; TSan free runs of every program must be silent.',
    technique='bounded schedule exploration of the generated C++ (clang AST -> threaded ShellSem abstract machine, z3-backed decisions), lockset check, gated-thread g++ replay + ThreadSanitizer'),
 'C09': dict(
    cat='translation_validation', ref='DESIGN.md §2.3, §3 C09', engine='E3-shellsem',
    text='Constructor, FacilitiesCheck and Locator() executed with the presence of dispatcher/runtime/other service in the user locator as symbolic Booleans: throws exactly for the forbidden combinations (z3 validity per path), otherwise identities of dispatcher/runtime/locator and contents of both locators checked on the object graph; member initialisation order from clang.',
    note='Trusted base: clang-14 typed AST, the ShellSem abstract machine (vf/shellsem) with library/runtime intrinsics, the mock Dezyne runtime and mock model header; the machine is validated against the g++-compiled program on sampled programs every run and every finding is replayed on the compiled program. Quantifier over models = the program family of vf/family.py (237 programs quick, 648 thorough); generated headers get #pragma once in the scratch copy.',
    technique='symbolic execution of the generated C++ (ShellSem) with symbolic locator contents, g++ replay'),
 'C10': dict(
    cat='translation_validation', ref='DESIGN.md §2.3, §3 C10', engine='E3-shellsem',
    text='FinalConstruct (and MultiClientSelector::FinalConstruct, port check_bindings) executed with one symbolic Boolean per bindable slot (both sides, every registered client): on the normally-returning path z3 proves all slots bound; parent recorded; late client registration refused.',
    note='Trusted base: clang-14 typed AST, the ShellSem abstract machine (vf/shellsem) with library/runtime intrinsics, the mock Dezyne runtime and mock model header; the machine is validated against the g++-compiled program on sampled programs every run and every finding is replayed on the compiled program. Quantifier over models = the program family of vf/family.py (237 programs quick, 648 thorough); generated headers get #pragma once in the scratch copy.',
    technique='symbolic execution of the generated C++ (ShellSem) with symbolic binding state, g++ replay'),
}

NOT_APPLICABLE = {
 'C06': 'acceptance of generated C++ by a compiler (stand-alone, double include, ODR, declared=defined) is a compiler verdict, not an SMT question within reach; see DESIGN.md §3 C06 (observations made while building E3 are listed there)',
}
PENDING = 'check not built yet in this revision (planned, see DESIGN.md); not claimed until it runs'

def main():
    props = [json.loads(l)['id'] for l in open(os.path.join(HERE, 'properties.jsonl'))]
    checks = []
    for pid in props:
        if pid not in CHECKS:
            continue
        c = CHECKS[pid]
        checks.append({
            'property_id': pid,
            'quick_cmd': f'bin/check {pid} --tier quick',
            'thorough_cmd': f'bin/check {pid} --tier thorough',
            'evidence_file': f'evidence/{pid}.json',
            'replay_cmd_template': f'bin/check {pid} --replay {{path}}',
            'engine': c.get('engine', 'E1-crosshair'),
            'level_claimed': {'category': c['cat'], 'text': c['text'], 'design_ref': c['ref']},
            'level_note': c['note'],
            'technique': c['technique'],
        })
    na = []
    for pid in props:
        if pid in CHECKS:
            continue
        na.append({'property_id': pid, 'reason': NOT_APPLICABLE.get(pid, PENDING)})
    man = {
        'version': 1,
        'setup_cmd': 'bin/setup',
        'hooks': {'guard': 'DZNPY_VERIF', 'enable': 'no hooks are compiled in: checks import /repo/src directly (DZNPY_VERIF=1 is exported but unused)',
                  'baseline_off_cmd': 'cd /repo && /venv/bin/python -m pytest -ra -q -p no:cacheprovider --timeout=900 --continue-on-collection-errors',
                  'source_commits': [], 'add_only': True},
        'engines': [
            {'name': 'E1-crosshair', 'path': 'vf/xh.py', 'serves_properties': sorted(p for p, c in CHECKS.items() if 'shellsem' not in c.get('engine', '')), 'kind_free_text': 'CrossHair symbolic execution of real dznpy functions, one process per condition, native replay of counterexamples'},
            {'name': 'E2-z3-regex', 'path': 'vf/regex_smt.py', 'serves_properties': ['C14'], 'kind_free_text': 'regex extracted from the source AST, equivalence decided by z3 (cvc5 cross-check) for unbounded strings'},
            {'name': 'E3-shellsem', 'path': 'vf/shellsem/', 'serves_properties': sorted(p for p, c in CHECKS.items() if 'shellsem' in c.get('engine', '')), 'kind_free_text': 'symbolic execution of the generated C++ from clang\'s JSON AST over z3 terms; g++ replay'},
        ],
        'checks': checks,
        'notes': 'All checks import /repo/src explicitly (the pinned suite imports the dznpy wheel instead). Exit 3 = harness error.',
        'not_applicable': na,
    }
    json.dump(man, open(os.path.join(HERE, 'MANIFEST.json'), 'w'), indent=1)
    print('checks:', [c['property_id'] for c in checks])

if __name__ == '__main__':
    main()
