"""Declarative description of a CrossHair harness and of the result records all engines share."""
from dataclasses import dataclass, field
from typing import Callable, Dict, List, Optional


@dataclass
class H:
    """One harness: a plain function `name(args) -> bool` in the property module (returns True iff
    the property holds for that input; lets unexpected exceptions of the real code escape).

    The contracted functions CrossHair analyses are *generated* from this description (main,
    one per shard, and a reachability twin for each) so that the harness body itself carries no
    contract CrossHair could short-circuit.
    """
    name: str
    kind: str                      # 'wide' | 'deep' | 'hunt'
    pre: List[str] = field(default_factory=list)   # templates, formatted with the tier params
    quick: Optional[Dict] = None   # tier params; reserved keys: ct (per-condition s), pt (per-path s)
    thorough: Optional[Dict] = None
    shards: Optional[Callable[[Dict], List[str]]] = None   # params -> extra pre per shard
    bounds: str = ''               # template, human readable bound of the claim
    outside: str = ''              # what lies outside the bound
    functions: List[str] = field(default_factory=list)     # real functions executed symbolically
    twin: bool = True
    replay_fn: Optional[str] = None  # name of a module function call_expr -> {'ok':..,'exc':..} replacing native replay

    @property
    def claim(self) -> bool:
        """hunt harnesses look for counterexamples only; they never count as 'holds'."""
        return self.kind != 'hunt'


@dataclass
class Ob:
    """Result of one obligation (a CrossHair condition, a direct SMT query, an E3 query ...)."""
    name: str                      # unique within the run
    engine: str                    # 'crosshair' | 'z3' | 'shellsem' | ...
    kind: str                      # wide | deep | hunt | twin | smt | ...
    claim: bool                    # counts towards 'holds within bounds' when confirmed
    verdict: str                   # confirmed | refuted | inconclusive | reachable | known
    detail: str = ''
    paths: int = 0
    confirmed_paths: int = 0
    solver_queries: int = 0
    solver_s: float = 0.0
    cpu_s: float = 0.0
    wall_s: float = 0.0
    bounds: str = ''
    call: Optional[str] = None     # replayable call expression (module-level eval)
    module: Optional[str] = None   # module in which `call` is evaluated
    replay_path: Optional[str] = None
    validated: int = 0             # native replays that agreed with the symbolic verdict
    replay_history: Optional[str] = None   # file with the earlier native calls a history-dependent replay needs


def pick(pool, i: int):
    """Return pool[i] by explicit (solver-checked) branching so that a symbolic index forks into
    concrete values (a symbolic subscript would yield a symbolic element and drag the solver through
    all downstream code).  Bisection keeps the number of forks per path logarithmic."""
    lo, hi = 0, len(pool)
    if not 0 <= i < hi:
        raise IndexError('pick index out of range')
    while hi - lo > 1:
        mid = (lo + hi) // 2
        if i < mid:
            hi = mid
        else:
            lo = mid
    return pool[lo]
