"""Builders for Dezyne JSON-AST documents (as decoded Python values) and a helper to push them
through the real parser.  orjson (a C boundary) is bypassed: the decoded document is injected
into DznJsonAst — byte-level JSON decoding is outside every claim that uses this module.
"""
from typing import List, Optional, Sequence
from . import realcode  # noqa: F401

from dznpy.json_ast import DznJsonAst
from dznpy import ast


def sn(*ids) -> dict:
    return {'<class>': 'scope_name', 'ids': list(ids)}


def formal(name: str, type_ids: Sequence[str], direction: str = 'in') -> dict:
    return {'<class>': 'formal', 'expression': 'undefined', 'name': name,
            'type_name': sn(*type_ids), 'direction': direction}


def formals(items: Sequence[dict] = ()) -> dict:
    return {'<class>': 'formals', 'elements': list(items)}


def event(name: str, direction: str = 'in', reply: Sequence[str] = ('void',),
          fmls: Sequence[dict] = ()) -> dict:
    return {'<class>': 'event', 'name': name,
            'signature': {'<class>': 'signature', 'type_name': sn(*reply), 'formals': formals(fmls)},
            'direction': direction}


def enum(name_ids: Sequence[str], fields: Sequence[str]) -> dict:
    return {'<class>': 'enum', 'name': sn(*name_ids),
            'fields': {'<class>': 'fields', 'elements': list(fields)}}


def subint(name_ids: Sequence[str], lo: int, hi: int) -> dict:
    return {'<class>': 'subint', 'name': sn(*name_ids),
            'range': {'<class>': 'range', 'from': lo, 'to': hi}}


def extern(name_ids: Sequence[str], data: str) -> dict:
    return {'<class>': 'extern', 'name': sn(*name_ids),
            'value': {'<class>': 'data', 'value': data}}


def interface(name_ids: Sequence[str], events: Sequence[dict] = (), types: Sequence[dict] = ()) -> dict:
    return {'<class>': 'interface', 'name': sn(*name_ids),
            'types': {'<class>': 'types', 'elements': list(types)},
            'events': {'<class>': 'events', 'elements': list(events)}}


def port(name: str, type_ids: Sequence[str], direction: str, injected: bool = False) -> dict:
    res = {'<class>': 'port', 'name': name, 'type_name': sn(*type_ids), 'direction': direction,
           'formals': formals()}
    if injected:
        res['injected?'] = 'injected'
    return res


def ports(items: Sequence[dict] = ()) -> dict:
    return {'<class>': 'ports', 'elements': list(items)}


def component(name_ids: Sequence[str], prts: Sequence[dict] = ()) -> dict:
    return {'<class>': 'component', 'name': sn(*name_ids), 'ports': ports(prts)}


def foreign(name_ids: Sequence[str], prts: Sequence[dict] = ()) -> dict:
    return {'<class>': 'foreign', 'name': sn(*name_ids), 'ports': ports(prts)}


def endpoint(port_name: str, instance: Optional[str] = None) -> dict:
    res = {'<class>': 'end-point', 'port_name': port_name}
    if instance is not None:
        res['instance_name'] = instance
    return res


def binding(left: dict, right: dict) -> dict:
    return {'<class>': 'binding', 'left': left, 'right': right}


def instance(name: str, type_ids: Sequence[str]) -> dict:
    return {'<class>': 'instance', 'name': name, 'type_name': sn(*type_ids)}


def system(name_ids: Sequence[str], prts: Sequence[dict] = (), insts: Sequence[dict] = (),
           binds: Sequence[dict] = ()) -> dict:
    return {'<class>': 'system', 'name': sn(*name_ids), 'ports': ports(prts),
            'instances': {'<class>': 'instances', 'elements': list(insts)},
            'bindings': {'<class>': 'bindings', 'elements': list(binds)}}


def namespace(name_ids: Sequence[str], elements: Sequence = ()) -> dict:
    return {'<class>': 'namespace', 'name': sn(*name_ids), 'elements': list(elements)}


def filename(name: str) -> dict:
    return {'<class>': 'file-name', 'name': name}


def import_(name: str) -> dict:
    return {'<class>': 'import', 'name': name}


def root(elements: Sequence = (), comment: Optional[str] = None, wd: str = '/w') -> dict:
    res = {'<class>': 'root', 'elements': list(elements), 'working-directory': wd}
    if comment is not None:
        res['comment'] = {'<class>': 'comment', 'string': comment}
    return res


def parse(doc) -> ast.FileContents:
    """Run the real parser on a decoded document (fresh parser instance)."""
    parser = DznJsonAst()
    parser._ast = doc  # pylint: disable=protected-access
    return parser.process()


def toaster_doc() -> dict:
    """A model in the style of the upstream example: nested namespaces, three same-named
    interfaces, out/inout formals, enum reply, a claim/release interface, an injected port."""
    return root([
        filename('./Toaster.dzn'),
        import_('ITimer.dzn'),
        extern(['MilliSeconds'], 'size_t'),
        extern(['PIncident'], 'std::shared_ptr<Incident>'),
        enum(['Status'], ['Ok', 'Fail']),
        interface(['IHeaterElement'], [event('Dummy')]),
        namespace(['My'], [
            extern(['MyLongNamedType'], 'Sub::MyLongNamedType'),
            interface(['IHeaterElement'], [event('On'), event('Off'),
                                           event('Glowing', 'out', fmls=[formal('level', ['MilliSeconds'])])]),
            namespace(['Project'], [
                enum(['Result'], ['Ok', 'Busy', 'Error']),
                interface(['IToaster'],
                          [event('Toast', 'in', ['Result'],
                                 [formal('time', ['MilliSeconds']), formal('info', ['PIncident'], 'out'),
                                  formal('cnt', ['MilliSeconds'], 'inout')]),
                           event('Cancel'),
                           event('Done', 'out'),
                           event('Fail', 'out', fmls=[formal('incident', ['PIncident'])])],
                          types=[enum(['State'], ['Idle', 'Busy']), subint(['Small'], 0, 3)]),
                interface(['IExclusiveToaster'],
                          [event('Claim', 'in', ['Result']),
                           event('Release'),
                           event('Toast', 'in', ['Result'], [formal('time', ['MilliSeconds'])]),
                           event('Ok', 'out'),
                           event('Fail', 'out', fmls=[formal('incident', ['PIncident'])])]),
                interface(['IPowerCord'],
                          [event('Initialize'), event('IsConnected', 'in', ['Result']),
                           event('Disconnected', 'out', fmls=[formal('p', ['My', 'MyLongNamedType'])])]),
                interface(['IConfiguration'], [event('Get', 'in', ['Result'])]),
                namespace(['Hal'], [
                    interface(['IHeaterElement'], [event('Heat'), event('Hot', 'out')]),
                ]),
                component(['Toaster'], [port('api', ['IToaster'], 'provides'),
                                        port('heater', ['My', 'IHeaterElement'], 'requires'),
                                        port('cord', ['IPowerCord'], 'requires'),
                                        port('cfg', ['IConfiguration'], 'requires', injected=True)]),
                component(['ExclusiveToaster'], [port('api', ['IExclusiveToaster'], 'provides'),
                                                 port('heater', ['Hal', 'IHeaterElement'], 'requires'),
                                                 port('cord', ['IPowerCord'], 'requires')]),
                system(['ToasterSystem'], [port('api', ['IToaster'], 'provides'),
                                           port('cord', ['IPowerCord'], 'requires')],
                       [instance('toaster', ['Toaster'])],
                       [binding(endpoint('api'), endpoint('api', 'toaster'))]),
                foreign(['Timer'], [port('tick', ['IPowerCord'], 'provides')]),
            ]),
        ]),
    ], comment='// Toaster\n')
