"""Run real functions natively (outside CrossHair's tracer) whenever all their arguments are concrete.

CrossHair's opcode tracer slows concrete Python down by two to three orders of magnitude on this
code base (a full Builder.build: ~10 ms natively, ~17 s traced).  Executing a function on fully
concrete arguments gives the same result traced or untraced, so `nativize` wraps selected real
functions: under tracing, if no symbolic value is reachable from the arguments, the call runs inside
NoTracing(); otherwise it runs traced as usual.  Nothing is stubbed or modelled — the same real code
runs either way.  Outside CrossHair (native replay) the wrappers are inert.

Fail-closed: an argument graph that is too large or of unknown shape counts as "not concrete".
"""
import enum
import functools
import types

try:
    from crosshair.tracers import NoTracing, is_tracing
    from crosshair.util import CrossHairValue
except ImportError:  # native replay in an interpreter without crosshair
    NoTracing = None

    def is_tracing():
        return False

    class CrossHairValue:  # type: ignore
        pass

_ATOMS = (str, int, float, bool, type(None), bytes, complex)
_BUDGET = 200000


def _concrete(x, seen: set, budget: list) -> bool:
    """Must be called with tracing off."""
    t = type(x)
    if t in _ATOMS:
        return True
    if isinstance(x, CrossHairValue):
        return False
    if isinstance(x, (enum.Enum, type, types.FunctionType, types.BuiltinFunctionType,
                      types.MethodType, types.ModuleType)):
        return True
    i = id(x)
    if i in seen:
        return True
    seen.add(i)
    budget[0] -= 1
    if budget[0] < 0:
        return False
    if t in (list, tuple, set, frozenset):
        return all(_concrete(v, seen, budget) for v in x)
    if t is dict:
        return all(_concrete(k, seen, budget) and _concrete(v, seen, budget) for k, v in x.items())
    if t.__module__.startswith('crosshair'):
        return False
    d = getattr(x, '__dict__', None)
    if d is not None and type(d) is dict:
        return all(_concrete(v, seen, budget) for v in d.values())
    if isinstance(x, (str, int, float, list, tuple, dict, set)):  # subclasses of builtins
        return False
    slots = getattr(t, '__slots__', None)
    if slots is not None:
        return all(_concrete(getattr(x, s, None), seen, budget) for s in slots)
    return False


def all_concrete(*values) -> bool:
    seen, budget = set(), [_BUDGET]
    return all(_concrete(v, seen, budget) for v in values)


def nativize_fn(fn):
    if getattr(fn, '_vf_native', False):
        return fn

    @functools.wraps(fn)
    def wrapper(*a, **kw):
        if NoTracing is not None and is_tracing():
            with NoTracing():
                if all_concrete(a, kw):
                    return fn(*a, **kw)
        return fn(*a, **kw)

    wrapper._vf_native = True
    wrapper._vf_orig = fn
    return wrapper


def nativize(owner, *names):
    """Replace owner.<name> (module function or class method) by its nativized wrapper."""
    for name in names:
        raw = owner.__dict__[name] if isinstance(owner, type) else getattr(owner, name)
        if isinstance(raw, property):
            setattr(owner, name, property(nativize_fn(raw.fget), raw.fset, raw.fdel, raw.__doc__))
        elif isinstance(raw, staticmethod):
            setattr(owner, name, staticmethod(nativize_fn(raw.__func__)))
        else:
            setattr(owner, name, nativize_fn(raw))


HISTORY = []          # concrete native harness invocations of this process, in order (for history replay)
HISTORY_OK = [True]


def _jsonable(x, depth=0):
    if depth > 8:
        return False
    if x is None or isinstance(x, (str, int, float, bool)):
        return True
    if isinstance(x, (list, tuple)):
        return all(_jsonable(v, depth + 1) for v in x)
    if isinstance(x, dict):
        return all(isinstance(k, str) and _jsonable(v, depth + 1) for k, v in x.items())
    return False


def run_native(fn, *a, **kw):
    """Call fn natively if tracing is on and everything is concrete; else plain call.  The call is
    logged so that a counterexample that depends on earlier calls in the same process (state leaking
    between calls) can be replayed together with its history."""
    if NoTracing is not None and is_tracing():
        with NoTracing():
            if not kw and _jsonable(a) and len(HISTORY) < 200000:
                HISTORY.append([getattr(fn, '__module__', ''), getattr(fn, '__name__', ''), list(a)])
            else:
                HISTORY_OK[0] = False
    return nativize_fn(fn)(*a, **kw)


_DONE = [False]


def nativize_text_layer():
    """Nativize the text-generation layer of dznpy (pure functions of their arguments).

    Note: names imported with `from x import y` keep pointing at the original function inside the
    importing module, so the module-level functions are patched in every dznpy module that holds a
    reference.
    """
    if _DONE[0]:
        return
    _DONE[0] = True
    import sys
    from dznpy import text_gen, misc_utils, cpp_gen, support_files
    from dznpy.support_files import strict_port, ilog, meta_helpers, multi_client_selector, \
        mutex_wrapped
    from dznpy.support_files import misc_utils as sf_misc_utils
    from dznpy.adv_shell.core import processing
    from dznpy.adv_shell import common

    def patch_everywhere(orig, new):
        for mod in list(sys.modules.values()):
            name = getattr(mod, '__name__', '')
            if not (name == 'dznpy' or name.startswith('dznpy.')):
                continue
            for k, v in list(vars(mod).items()):
                if v is orig:
                    setattr(mod, k, new)

    for mod, names in [
        (misc_utils, ['flatten_to_strlist', 'trim_list']),
        (text_gen, ['chunk', 'cond_chunk']),
        (support_files, ['generate_cpp_code', 'distillate_ns']),
        (processing, ['create_constructor', 'create_final_construct_fn', 'create_facilities_check_fn',
                      'create_cpp_port_helpers', 'create_cpp_portitf', 'create_facilities',
                      'initialize_port_impl', 'reroute_in_events', 'reroute_out_events']),
    ]:
        for n in names:
            orig = getattr(mod, n)
            patch_everywhere(orig, nativize_fn(orig))
    for sf in (strict_port, ilog, meta_helpers, multi_client_selector, mutex_wrapped, sf_misc_utils):
        orig = sf.create_header
        patch_everywhere(orig, nativize_fn(orig))
    nativize(text_gen.TextBlock, '__init__', '__str__', 'append', 'indent', 'trim', '__add__')
    nativize(text_gen.Indentizer, 'to_list')
    nativize(cpp_gen.Comment, '__init__', '__str__')
    nativize(cpp_gen.Struct, '__str__')
    nativize(cpp_gen.Namespace, '__str__')
    nativize(cpp_gen.AccessSpecifiedSection, '__str__')
    nativize(cpp_gen.SystemIncludes, '__str__')
    nativize(cpp_gen.ProjectIncludes, '__str__')
    nativize(cpp_gen.Constructor, 'as_decl', 'as_def')
    nativize(cpp_gen.Function, 'as_decl', 'as_def')
    nativize(common.CppPorts, 'accessors_decl', 'accessors_def', 'rerouting_class_members')
    nativize(common.Facilities, 'accessors_decl', 'accessors_def', 'member_variables')


_PARSER_DONE = [False]


def nativize_parser_layer(silence_print: bool = True):
    """Nativize json_ast.parse_* (sub-documents without symbolic values are parsed untraced) and give
    the module-level print() an empty body (printing a symbolic value makes CrossHair realise it, one
    path per concrete value)."""
    if _PARSER_DONE[0]:
        return
    _PARSER_DONE[0] = True
    from dznpy import json_ast
    for name in list(vars(json_ast)):
        if name.startswith('parse_') and callable(getattr(json_ast, name)):
            setattr(json_ast, name, nativize_fn(getattr(json_ast, name)))
    if silence_print:
        json_ast.print = lambda *a, **k: None
