"""bin/check <ID> [--tier quick|thorough] [--replay PATH]

Exit status: 0 = held on everything explored (known findings are printed, not failed);
1 = at least one reproducing violation not listed in known_findings.jsonl (VIOLATION line printed);
3 = harness error (non-reproducing counterexample, vacuous harness, broken environment).
"""
import argparse
import dataclasses
import importlib
import json
import os
import shutil
import sys
import tempfile
import time

VERIF = os.path.dirname(os.path.dirname(os.path.abspath(__file__)))
HARNESS_ERROR = 3


def log(*a):
    print(*a, flush=True)


def load_findings():
    path = os.path.join(VERIF, 'known_findings.jsonl')
    out = []
    if os.path.exists(path):
        with open(path, encoding='utf-8') as fh:
            for line in fh:
                line = line.strip()
                if line and not line.startswith('#'):
                    out.append(json.loads(line))
    return out


def do_replay(path: str) -> int:
    from .replay import run_replay
    with open(path, encoding='utf-8') as fh:
        rec = json.load(fh)
    if rec.get('replay_fn'):
        mod = importlib.import_module(rec['module'])
        res = getattr(mod, rec['replay_fn'])(rec['call'])
    elif rec.get('kind') == 'custom':
        mod = importlib.import_module(rec['module'])
        ok, info = mod.replay_custom(rec)
        res = {'ok': ok, 'exc': info}
    else:
        res = run_replay(rec['module'], rec['call'], history=rec.get('history'))
    log(f'replay {rec["module"]}: {rec.get("call", rec.get("what"))} -> {res}')
    if res['ok'] is False:
        log(f'VIOLATION property={rec["property"]} replay={path}')
        return 1
    if res['ok'] is None:
        return HARNESS_ERROR
    return 0


def main() -> int:
    ap = argparse.ArgumentParser()
    ap.add_argument('prop')
    ap.add_argument('--tier', default=os.environ.get('VERIF_TIER', 'quick'),
                    choices=['quick', 'thorough'])
    ap.add_argument('--replay')
    ap.add_argument('--only', help='comma separated harness names (debugging)')
    args = ap.parse_args()
    pid = args.prop.upper()
    if args.replay:
        return do_replay(args.replay)

    seed = int(os.environ.get('VERIF_SEED', '0') or 0)
    t0 = time.time()
    modname = f'props.{pid.lower()}'
    from . import realcode  # noqa: F401  (aborts if dznpy is not /repo/src)
    mod = importlib.import_module(modname)
    from .spec import Ob
    from . import xh
    from .replay import run_replay

    scratch = tempfile.mkdtemp(prefix=f'vf_{pid}_')
    obs = []
    try:
        specs = list(getattr(mod, 'SPECS', []))
        if args.only:
            keep = set(args.only.split(','))
            specs = [s for s in specs if s.name in keep]
        obs += xh.run_specs(modname, specs, args.tier, scratch, log=log)
        if hasattr(mod, 'extra') and not args.only:
            obs += mod.extra(args.tier, seed, scratch, log)
    finally:
        shutil.rmtree(scratch, ignore_errors=True)

    # ---- known findings -------------------------------------------------------------------
    findings = [f for f in load_findings() if f['property'] == pid]
    known = {f['key']: f for f in findings if f['status'] == 'known'}
    key_fn = getattr(mod, 'finding_key', lambda ob: ob.call or ob.name)
    printed_known = set()
    for f in known.values():
        if f.get('replay_fn'):
            res = getattr(importlib.import_module(f['module']), f['replay_fn'])(f['call'])
        elif f.get('kind') == 'custom':
            ok, info = mod.replay_custom(f)
            res = {'ok': ok, 'exc': info}
        else:
            res = run_replay(f['module'], f['call'])
        if res['ok'] is False:
            log(f'KNOWN-FINDING: property={pid} {f["what"]} [{f["key"]}]')
            printed_known.add(f['key'])
        elif res['ok'] is True:
            log(f'NOTE: listed finding no longer reproduces: {f["key"]}')
        else:
            log(f'NOTE: replay of listed finding broke: {f["key"]}: {res["exc"]}')

    # ---- classify ---------------------------------------------------------------------------
    rdir = os.path.join(VERIF, 'replays', pid)
    violations = []
    seen_keys = set()
    for ob in obs:
        if ob.verdict != 'refuted':
            continue
        key = key_fn(ob)
        if key in seen_keys:
            ob.verdict = 'duplicate'
            continue
        seen_keys.add(key)
        if key in known:
            ob.verdict = 'known'
            if key not in printed_known:
                log(f'KNOWN-FINDING: property={pid} {known[key]["what"]} [{key}]')
                printed_known.add(key)
            continue
        os.makedirs(rdir, exist_ok=True)
        path = os.path.join(rdir, f'{args.tier}_{len(violations)}.json')
        rec = {'property': pid, 'module': ob.module or modname, 'call': ob.call,
               'obligation': ob.name, 'detail': ob.detail, 'key': key}
        if getattr(ob, 'replay_history', None):
            rec['history'] = ob.replay_history
        spec_by_name = {sp.name: sp for sp in getattr(mod, 'SPECS', [])}
        base = ob.name.split('__')[0]
        if base in spec_by_name and spec_by_name[base].replay_fn:
            rec['replay_fn'] = spec_by_name[base].replay_fn
        if ob.replay_path:      # engine wrote its own replay record
            path = ob.replay_path
        else:
            with open(path, 'w', encoding='utf-8') as fh:
                json.dump(rec, fh, indent=1)
        ob.replay_path = path
        violations.append(ob)

    harness_errors = [ob for ob in obs if ob.verdict == 'harness_error']
    claims = [ob for ob in obs if ob.claim]
    confirmed = [ob for ob in claims if ob.verdict == 'confirmed']
    inconclusive = [ob for ob in obs if ob.verdict in ('inconclusive', 'pending') and (ob.claim or ob.kind in ('twin', 'finding', 'validation'))]
    # a confirmed claim whose twin is not 'reachable' is vacuous-suspect: demote
    twins = {ob.name[:-len('__reach')]: ob for ob in obs if ob.kind == 'twin'}
    vacuous = []
    for ob in confirmed:
        tw = twins.get(ob.name)
        if tw is not None and tw.verdict != 'reachable':
            vacuous.append(ob)

    wall = round(time.time() - t0, 1)
    shown = 0
    for ob in obs:
        if (ob.kind == 'twin' and ob.verdict == 'reachable') or ob.verdict == 'duplicate':
            continue
        if ob.verdict == 'confirmed' and len(obs) > 80:
            continue
        shown += 1
        if shown > 120:
            continue
        log(f'  [{ob.verdict:12}] {ob.name} ({ob.kind}, paths={ob.paths}, {ob.wall_s}s) '
            f'{ob.detail[:160] if ob.verdict != "confirmed" else ""}')
    log(f'{pid} {args.tier}: {len(confirmed)}/{len(claims)} claim obligations confirmed, '
        f'{len(violations)} violations, {len(printed_known)} known findings, '
        f'{len(inconclusive)} inconclusive, {len(vacuous)} vacuous-suspect, '
        f'{len(harness_errors)} harness errors, {wall}s')

    write_evidence(mod, pid, args.tier, seed, obs, violations, vacuous, wall, printed_known)

    for ob in violations[:20]:
        log(f'VIOLATION property={pid} replay={ob.replay_path}')
        log(f'  {ob.name}: {ob.detail[:400]}')
    if len(violations) > 20:
        log(f'... and {len(violations) - 20} more violations (see evidence)')
    if violations:
        return 1
    if harness_errors or vacuous:
        for ob in harness_errors + vacuous:
            log(f'HARNESS-ERROR: {ob.name}: {ob.detail[:300]}')
        return HARNESS_ERROR
    if claims and not confirmed:
        log('HARNESS-ERROR: none of the claim obligations could be decided (all inconclusive): nothing was verified')
        return HARNESS_ERROR
    return 0


def write_evidence(mod, pid, tier, seed, obs, violations, vacuous, wall, known_printed):
    claims = [ob for ob in obs if ob.claim]
    confirmed = [ob for ob in claims if ob.verdict == 'confirmed' and ob not in vacuous]
    paths = sum(ob.paths for ob in obs)
    confirmed_paths = sum(ob.confirmed_paths for ob in obs if ob.kind != 'twin')
    queries = sum(ob.solver_queries for ob in obs)
    validated = sum(ob.validated for ob in obs)
    samples = []
    for ob in obs:
        if ob.kind == 'twin' and ob.verdict == 'reachable' and len(samples) < 8:
            samples.append({'obligation': ob.name, 'witness_call': ob.call,
                            'native_result': True})
    for ob in obs:
        if ob.kind != 'twin' and len(samples) < 14 and ob.call and ob.verdict in ('refuted', 'known'):
            samples.append({'obligation': ob.name, 'counterexample': ob.call,
                            'verdict': ob.verdict})
    extra_samples = getattr(mod, 'evidence_samples', None)
    if extra_samples:
        samples += list(extra_samples())[:8]
    if not samples:
        samples = [{'obligation': ob.name, 'bounds': ob.bounds} for ob in obs[:4]]
    cov = {
        'evaluations': max(paths + sum(1 for ob in obs if ob.engine != 'crosshair'), 1),
        'distinct_nontrivial': confirmed_paths + sum(
            1 for ob in obs if ob.engine != 'crosshair' and ob.verdict == 'confirmed'),
        'rule': 'evaluations = execution paths of the real functions explored symbolically by '
                'CrossHair (each a distinct solver-feasible path condition, summed over all harness '
                'conditions incl. reachability twins) + direct SMT/abstract-machine queries; '
                'distinct_nontrivial = paths that passed the precondition, ran the real code to the '
                'postcondition and were confirmed by the solver over all inputs of that path '
                '(CrossHair num_confirmed_paths; precondition-rejected and aborted paths are not '
                'counted) + non-CrossHair queries that came back unsat/validated',
        'states': max(paths, 1),
        'transitions': max(queries, 1),
        'traces_validated_against_impl': validated,
        'samples': samples,
        'exhaustive': bool(claims) and len(confirmed) == len(claims),
        'obligations': len(claims),
        'discharged': len(confirmed),
        'solver_queries': queries,
        'solver_time_s': round(sum(ob.solver_s for ob in obs), 2),
        'cpu_s': round(sum(ob.cpu_s for ob in obs), 1),
        'functions_encoded': sorted(set(getattr(mod, 'FUNCTIONS', []))),
        'bounds': sorted({ob.bounds for ob in obs if ob.bounds}),
        'outside_bounds': getattr(mod, 'OUTSIDE', ''),
        'verdicts': {v: sum(1 for ob in obs if ob.verdict == v)
                     for v in sorted({ob.verdict for ob in obs})},
        'inconclusive_obligations': [ob.name + ': ' + ob.detail[:120] for ob in obs
                                     if ob.verdict == 'inconclusive'][:40],
        'known_findings_reproduced': sorted(known_printed),
        'per_obligation': [
            {k: v for k, v in dataclasses.asdict(ob).items()
             if k in ('name', 'engine', 'kind', 'claim', 'verdict', 'paths', 'confirmed_paths',
                      'solver_queries', 'solver_s', 'wall_s')}
            for ob in obs],
    }
    extra_cov = getattr(mod, 'evidence_extra', None)
    if extra_cov:
        cov.update(extra_cov())
    ev = {
        'property_id': pid,
        'tier': tier,
        'seed': seed,
        'level': getattr(mod, 'LEVEL', 'model_checking'),
        'coverage': cov,
        'assumptions': list(getattr(mod, 'ASSUMPTIONS', [])),
        'wall_s': wall,
        'violations': len(violations),
    }
    os.makedirs(os.path.join(VERIF, 'evidence'), exist_ok=True)
    with open(os.path.join(VERIF, 'evidence', f'{pid}.json'), 'w', encoding='utf-8') as fh:
        json.dump(ev, fh, indent=1)


if __name__ == '__main__':
    sys.exit(main())
