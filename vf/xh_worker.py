"""Run CrossHair on ONE contracted function in this process and print one JSON line.

usage: python -m vf.xh_worker <gen_module_file> <function> <cond_timeout_s> <path_timeout_s>

Output JSON: {fn, state, message, call, paths, confirmed_paths, solver_queries, solver_s, cpu_s}
state ∈ confirmed | cannot_confirm | pre_unsat | post_fail | exec_err | post_err | syntax_err |
        import_err | crash
"""
import collections
import importlib.util
import json
import os
import re
import sys
import time


def main() -> int:
    gen_file, fn_name, cond_timeout, path_timeout = sys.argv[1:5]
    out = {'fn': fn_name, 'state': 'crash', 'message': '', 'call': None, 'paths': 0,
           'confirmed_paths': 0, 'solver_queries': 0, 'solver_s': 0.0, 'cpu_s': 0.0}
    t0 = time.process_time()
    try:
        import z3
        solver_stats = {'n': 0, 't': 0.0}
        orig_check = z3.Solver.check

        def counted_check(self, *a):
            s = time.perf_counter()
            try:
                return orig_check(self, *a)
            finally:
                solver_stats['n'] += 1
                solver_stats['t'] += time.perf_counter() - s

        z3.Solver.check = counted_check

        from crosshair.core_and_libs import analyze_function, run_checkables
        from crosshair.options import AnalysisOptionSet
        from crosshair.pure_importer import prefer_pure_python_imports
        import crosshair.core as xcore

        # count confirmed paths (CrossHair keeps the number internal)
        confirmed = {'n': 0}
        orig_analyze_calltree = xcore.analyze_calltree

        def counting_calltree(options, conditions):
            res = orig_analyze_calltree(options, conditions)
            confirmed['n'] += res.num_confirmed_paths
            return res

        xcore.analyze_calltree = counting_calltree

        sys.path.insert(0, os.path.dirname(os.path.abspath(gen_file)))
        with prefer_pure_python_imports():
            modname = os.path.splitext(os.path.basename(gen_file))[0]
            spec = importlib.util.spec_from_file_location(modname, gen_file)
            mod = importlib.util.module_from_spec(spec)
            sys.modules[modname] = mod
            spec.loader.exec_module(mod)
            fn = getattr(mod, fn_name)
            stats = collections.Counter()
            options = AnalysisOptionSet(per_condition_timeout=float(cond_timeout),
                                        per_path_timeout=float(path_timeout),
                                        report_all=True, stats=stats)
            messages = run_checkables(analyze_function(fn, options))
        out['paths'] = int(stats.get('num_paths', 0))
        out['confirmed_paths'] = confirmed['n']
        out['solver_queries'] = solver_stats['n']
        out['solver_s'] = round(solver_stats['t'], 3)
        if not messages:
            out['state'] = 'crash'
            out['message'] = 'no analysis message produced (function has no conditions?)'
        else:
            # the worst message wins (CrossHair ordering)
            msg = max(messages, key=lambda m: m.state)
            out['state'] = msg.state.value
            out['message'] = msg.message
            m = re.search(r'when calling (.*?)(?: \(which returns .*\))?$', msg.message, re.S)
            if m:
                out['call'] = m.group(1)
    except BaseException as exc:  # pylint: disable=broad-except
        out['state'] = 'crash'
        out['message'] = f'{type(exc).__name__}: {exc}'
    try:
        if out['state'] in ('post_fail', 'exec_err', 'post_err') and len(sys.argv) > 5:
            from vf import fast
            if fast.HISTORY:
                with open(sys.argv[5], 'w', encoding='utf-8') as fh:
                    json.dump({'complete': fast.HISTORY_OK[0], 'calls': fast.HISTORY[-20000:]}, fh)
                out['history'] = sys.argv[5]
    except Exception:  # pylint: disable=broad-except
        pass
    out['cpu_s'] = round(time.process_time() - t0, 2)
    sys.stdout.write('\n@@XH@@' + json.dumps(out) + '\n')
    sys.stdout.flush()
    return 0


if __name__ == '__main__':
    sys.exit(main())
