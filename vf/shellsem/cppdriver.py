"""Compile the generated shell with g++ against the mock runtime and run a scripted scenario on
the REAL compiled program.  Used (a) to validate the abstract machine (same scenario, traces must
agree) and (b) to replay a finding before it is reported."""
import os
import subprocess
from typing import Dict, List, Optional, Tuple

from .. import family as fam
from .frontend import MOCK_INC

CPP = {'TInt': 'int', 'TBlob': 'Blob', 'TStr': 'std::string'}


def cap(name: str) -> str:
    return name[0].upper() + name[1:]


def _ns(m: fam.Model) -> str:
    return ('::' + '::'.join(m.ns) + '::') if m.ns else '::'


def _lit(ftype: str, n: int) -> str:
    if ftype == 'TInt':
        return str(n)
    if ftype == 'TBlob':
        return f'Blob{{{n}}}'
    return f'std::string("s{n}")'


def _show(ftype: str, expr: str) -> str:
    if ftype == 'TInt':
        return f'std::to_string({expr})'
    if ftype == 'TBlob':
        return f'std::to_string(({expr}).v)'
    return f'({expr}).substr(1)'


def _sig_params(ev: fam.Ev) -> str:
    out = []
    for fname, fdir, ftype in ev.formals:
        ref = '&' if fdir != 'in' and ev.direction == 'in' else ''
        out.append(f'{CPP[ftype]}{ref} {fname}')
    return ', '.join(out)


class Script:
    """Builds main(): declarations, handler bindings and steps, each step printing a trace line."""

    def __init__(self, info: Dict, mc_cfg, origin_create: bool, services: Dict[str, bool]):
        self.info, self.mc, self.create = info, mc_cfg, origin_create
        self.m: fam.Model = info['model']
        self.lines: List[str] = []
        self.counter = 100
        self.services = services
        self.sup = '::' + '::'.join(info['support_ns'])

    def val(self) -> int:
        self.counter += 1
        return self.counter

    def itf(self, prt: fam.Prt) -> fam.Itf:
        return next(i for i in self.m.itfs if i.name == prt.itf)

    def prologue(self):
        L = self.lines
        L.append('    dzn::locator userLocator; dzn::pump userPump; dzn::runtime userRuntime; OtherService other;')
        if self.services.get('dzn::pump'):
            L.append('    userLocator.set(userPump);')
        if self.services.get('dzn::runtime'):
            L.append('    userLocator.set(userRuntime);')
        if self.services.get('OtherService'):
            L.append('    userLocator.set(other);')
        if self.mc is not None:
            L.append(f'    {self.sup}::ILog mcLog;')
        shell_t = f'{_ns(self.m)}{self.info["shell"]}'
        args = 'userLocator' + (', mcLog' if self.mc is not None else '') + ', "inst"'
        L.append(f'    std::unique_ptr<{shell_t}> shellPtr;')
        L.append(f'    try {{ shellPtr.reset(new {shell_t}({args})); }}')
        L.append('    catch (const std::exception& e) { std::cout << "THROW ctor " << e.what() << std::endl; return 0; }')
        L.append('    auto& shell = *shellPtr;')
        L.append('    std::cout << "CONSTRUCTED" << std::endl;')
        if self.create:
            L.append('    g_pump = &shell.Locator().get<dzn::pump>();')
        else:
            L.append('    g_pump = &userPump;')

    def accessor_expr(self, prt: fam.Prt, client: Optional[str]) -> str:
        pre = 'Provides' if prt.direction == 'provides' else 'Requires'
        if client is not None:
            return f'shell.{pre}MultiClient{cap(prt.name)}("{client}").port'
        return f'shell.{pre}{cap(prt.name)}().port'

    def handler(self, side: str, prt: fam.Prt, ev: fam.Ev, reply_expr: str = '') -> str:
        """C++ lambda logging the call"""
        shows = []
        body = []
        for fname, fdir, ftype in ev.formals:
            if fdir == 'out' and ev.direction == 'in':
                shows.append('std::string("-")')
            else:
                shows.append(_show(ftype, fname))
        args = ' + "," + '.join(shows) if shows else 'std::string("")'
        body.append(f'logcall("{side}", "{prt.name}", "{ev.name}", {args});')
        for fname, fdir, ftype in ev.formals:
            if fdir != 'in' and ev.direction == 'in':
                body.append(f'{{ int vf_w__ = nextval(); {fname} = {_wr(ftype)}; std::cout << "WROTE {fname}=" << vf_w__ << std::endl; }}')
        if ev.reply != 'void':
            itf_t = f'{_ns(self.m)}{prt.itf}'
            body.append(f'{{ int vf_r__ = {reply_expr or "nextreply()"}; std::cout << "REPLY " << vf_r__ << std::endl; '
                        f'return static_cast<{itf_t}::Res>(vf_r__); }}')
        return f'[&]({_sig_params(ev)}) {{ ' + ' '.join(body) + ' }'

    def bind_all(self, clients: List[str]):
        for prt in self.m.ports:
            if prt.injected:
                continue
            itf = self.itf(prt)
            is_mc = self.mc is not None and prt.name == self.mc.port_name
            for ev in itf.events:
                user_binds = (prt.direction == 'provides') == (ev.direction == 'out')
                if user_binds:
                    for cl in (clients if is_mc else [None]):
                        side = 'user' if cl is None else f'client:{cl}'
                        self.lines.append(f'    {self.accessor_expr(prt, cl)}.{ev.direction}.{ev.name} = '
                                          f'{self.handler(side, prt, ev)};')
                else:
                    self.lines.append(f'    g_enc(shell).hook_{prt.name}_{ev.direction}_{ev.name} = '
                                      f'{self.handler("comp", prt, ev)};')

    def invoke(self, slot_expr: str, ev: fam.Ev, tag: str, itf_t: str):
        L = self.lines
        L.append(f'    std::cout << "INVOKE {tag}" << std::endl;')
        L.append('    try {')
        names = []
        for i, (fname, fdir, ftype) in enumerate(ev.formals):
            v = self.val()
            L.append(f'        {CPP[ftype]} a{i} = {_lit(ftype, v)}; std::cout << "ARG {i}=" << {v} << std::endl;')
            names.append(f'a{i}')
        call = f'{slot_expr}({", ".join(names)})'
        if ev.reply != 'void':
            L.append(f'        auto r = {call}; std::cout << "RET " << static_cast<int>(r) << std::endl;')
        else:
            L.append(f'        {call}; std::cout << "RET void" << std::endl;')
        for i, (fname, fdir, ftype) in enumerate(ev.formals):
            if fdir != 'in' and ev.direction == 'in':
                L.append(f'        std::cout << "OUT {i}=" << {_show(ftype, "a%d" % i)} << std::endl;')
        L.append('    } catch (const std::exception& e) { std::cout << "THROW " << e.what() << std::endl; }')
        L.append('    std::cout << "QUEUE " << g_pump->queue.size() << std::endl;')
        L.append('    { size_t n = g_pump->queue.size(); g_pump->drain(); std::cout << "DRAINED " << n << std::endl; }')

    def final_construct(self):
        self.lines.append('    try { shell.FinalConstruct(nullptr); std::cout << "FINAL ok" << std::endl; }')
        self.lines.append('    catch (const std::exception& e) { std::cout << "FINAL throw " << e.what() << std::endl; }')

    def source(self) -> str:
        m = self.m
        enc_t = f'{_ns(m)}{m.comp}'
        shell_t = f'{_ns(m)}{self.info["shell"]}'
        head = [
            '// generated by /verif ShellSem: scripted scenario on the compiled shell',
            '#include <iostream>', '#include <memory>', '#include <string>', '#include <vector>',
            '#include <algorithm>', '#include <cctype>', '#include <cwctype>', '#include <regex>', '#include <sstream>',
            '#include <functional>', '#include <optional>', '#include <mutex>', '#include <map>', '#include <stdexcept>',
            '#include <deque>', '#include <typeinfo>',
            'struct OtherService { int x = 0; };',
            # reach the private encapsulee for instrumentation only
            # single translation unit: a shell of a global-namespace component lives in an anonymous
            # namespace and cannot be linked from another TU (a C06 observation, not claimed)
            '#define private public', f'#include "{self.info["source"]}"', '#undef private',
            'static dzn::pump* g_pump = nullptr;',
            'static int g_val = 500; static int nextval() { return ++g_val; }',
            'static int g_reply = 2; static std::vector<int> g_replies;',
            'static int nextreply() { if (!g_replies.empty()) { int r = g_replies.front(); g_replies.erase(g_replies.begin()); return r; } return g_reply; }',
            'static void logcall(const char* side, const char* port, const char* ev, const std::string& args)',
            '{ std::cout << "CALL " << side << " " << port << " " << ev << " ctx=" << (g_pump->in_dispatcher > 0 ? 1 : 0)',
            '            << " q=" << g_pump->queue.size() << " args=" << args << std::endl; }',
            f'static {enc_t}& g_enc({shell_t}& s) {{ return s.m_encapsulee; }}',
            'int main()', '{',
        ]
        return '\n'.join(head + self.lines + ['    return 0;', '}']) + '\n'


def _wr(ftype: str) -> str:
    if ftype == 'TInt':
        return 'vf_w__'
    if ftype == 'TBlob':
        return 'Blob{vf_w__}'
    return 'std::string("s") + std::to_string(vf_w__)'


def compile_and_run(prog_dir: str, info: Dict, source: str, name: str = 'driver', asan: bool = False) -> Tuple[int, str]:
    src = os.path.join(prog_dir, f'{name}.cc')
    exe = os.path.join(prog_dir, name)
    with open(src, 'w', encoding='utf-8') as fh:
        fh.write(source)
    cmd = ['g++', '-std=c++17', '-O0', '-w', '-I', MOCK_INC, '-I', prog_dir, src, '-o', exe, '-pthread']
    env = dict(os.environ)
    if asan:
        cmd[3:3] = ['-g', '-fsanitize=address', '-fno-omit-frame-pointer']
        env['ASAN_OPTIONS'] = 'detect_stack_use_after_return=1:halt_on_error=1'
    proc = subprocess.run(cmd, capture_output=True, text=True, timeout=600, check=False)
    if proc.returncode != 0:
        return 2, 'COMPILE-ERROR ' + proc.stderr[:1500]
    run = subprocess.run([exe], capture_output=True, text=True, timeout=120, check=False, env=env)
    out = run.stdout
    if asan and 'AddressSanitizer' in run.stderr:
        out += '\nASAN-REPORT ' + run.stderr[:600].replace('\n', ' | ')
    return run.returncode, out


def parse_trace(text: str) -> List[Dict]:
    """Group the output by INVOKE blocks."""
    blocks, cur = [], None
    pre = []
    for line in text.splitlines():
        if line.startswith('INVOKE '):
            cur = {'tag': line[7:], 'args': {}, 'calls': [], 'ret': None, 'outs': {}, 'wrote': [],
                   'replies': [], 'throw': None, 'queue': None, 'drained': None}
            blocks.append(cur)
        elif cur is None:
            pre.append(line)
        elif line.startswith('ARG '):
            k, v = line[4:].split('=')
            cur['args'][int(k)] = v
        elif line.startswith('CALL '):
            parts = line.split(' ')
            cur['calls'].append({'side': parts[1], 'port': parts[2], 'event': parts[3],
                                 'ctx': parts[4] == 'ctx=1', 'q': int(parts[5][2:]),
                                 'args': parts[6][5:].split(',') if len(parts) > 6 and parts[6][5:] else [],
                                 'after_return': cur['ret'] is not None or cur['throw'] is not None})
        elif line.startswith('WROTE '):
            cur['wrote'].append(line[6:].split('=')[1])
        elif line.startswith('REPLY '):
            cur['replies'].append(line[6:])
        elif line.startswith('RET '):
            cur['ret'] = line[4:]
        elif line.startswith('OUT '):
            k, v = line[4:].split('=')
            cur['outs'][int(k)] = v
        elif line.startswith('THROW '):
            cur['throw'] = line[6:]
        elif line.startswith('QUEUE '):
            cur['queue'] = int(line[6:])
        elif line.startswith('DRAINED '):
            cur['drained'] = int(line[8:])
    return [{'pre': pre}] + blocks
