"""Property queries over the ShellSem execution of one generated program.

Each function returns a list of Finding (violations with a concrete witness) and raises
Unsupported / Inconclusive when the program cannot be decided (fail closed)."""
from dataclasses import dataclass, field
from typing import Any, Dict, List, Optional, Tuple

import z3

from .. import family as fam
from . import machine as M
from . import explore
from .program import Program, Unsupported
from .world import World, Call, SORTS, RES_VALUES, cap

from dznpy.adv_shell.common import FacilitiesOrigin
from dznpy.adv_shell.types import RuntimeSemantics


@dataclass
class Finding:
    prop: str
    what: str
    witness: Dict[str, Any] = field(default_factory=dict)


def expected_semantics(info, ports_cfg) -> Dict[str, str]:
    m: fam.Model = info['model']
    provs = {p.name for p in m.ports if p.direction == 'provides'}
    reqs = {p.name for p in m.ports if p.direction == 'requires'}
    matched = ports_cfg.match(provs, reqs).value
    return {k: ('MTS' if v == RuntimeSemantics.MTS else 'STS') for k, v in matched.items()}


def services_for(origin) -> Dict[str, Any]:
    if origin == FacilitiesOrigin.CREATE:
        return {'OtherService': True}
    return {'dzn::pump': True, 'dzn::runtime': True, 'OtherService': True}


def model_values(model, terms) -> Dict[str, str]:
    out = {}
    if model is None:
        return out
    for t in terms:
        if t is None:
            continue
        try:
            out[str(t)] = str(model.eval(t, model_completion=True))
        except z3.Z3Exception:
            pass
    return out


def _exposed(model: fam.Model):
    return [p for p in model.ports if not p.injected]


def mc_port_name(info) -> Optional[str]:
    m = info['model']
    return fam.MC_FOR[m.label][0] if m.label in fam.MC_FOR and info.get('has_mc') else None


# ---------------------------------------------------------------------------------------------------------
# C01 + C02: routing, integrity, context
# ---------------------------------------------------------------------------------------------------------

def check_event(w: World, oracle, prt: fam.Prt, ev: fam.Ev, call_slot: M.Loc, expect_side: str,
                sem: str, inbound: bool, findings: List[Finding], tag: str, props=('C01', 'C02')):
    """Invoke one slot with fresh symbolic arguments and check what the handlers observed."""
    pump = w.dispatcher()
    n0, q0, x0 = len(w.calls), len(pump.queue), pump.executed
    try:
        return _check_event(w, oracle, prt, ev, call_slot, expect_side, sem, inbound, findings, tag, props,
                            pump, n0, q0, x0)
    finally:
        if getattr(w, 'trace_out', None) is not None:
            w.trace_out.append({'tag': tag, 'calls': [(c.side, c.port, c.event, c.in_dispatcher)
                                                      for c in w.calls[n0:]]})


def _check_event(w, oracle, prt, ev, call_slot, expect_side, sem, inbound, findings, tag, props, pump, n0, q0, x0):
    ctx = {'port': prt.name, 'event': ev.name, 'direction': ev.direction, 'semantics': sem, 'slot': tag}
    try:
        passed, after, ret = w.invoke(call_slot, ev, tag)
    except M.CppThrow as exc:
        findings.append(Finding('C01', f'{tag}: event is not routed (call throws {exc})', ctx))
        return
    except M.Dangling as exc:
        findings.append(Finding('C02', f'{tag}: dangling access while forwarding: {exc}', ctx))
        return
    deferred = inbound and sem == 'MTS' and ev.direction == 'out' and prt.direction == 'requires'
    immediate = w.calls[n0:]
    if deferred:
        if 'C02' in props:
            if immediate:
                findings.append(Finding('C02', f'{tag}: MTS requires out-event ran synchronously instead of '
                                               'being queued on the dispatcher', ctx))
            elif len(pump.queue) != q0 + 1:
                findings.append(Finding('C02', f'{tag}: MTS requires out-event queued {len(pump.queue) - q0} '
                                               'closures on the dispatcher (expected 1)', ctx))
        try:
            w.drain()
        except M.Dangling as exc:
            findings.append(Finding('C02', f'{tag}: queued closure reads the caller\'s dead stack frame ({exc}): '
                                           'in-arguments are not captured by value', ctx))
            return
        except M.CppThrow as exc:
            findings.append(Finding('C01', f'{tag}: queued closure throws {exc}', ctx))
            return
    calls = w.calls[n0:]
    if len(calls) != 1:
        findings.append(Finding('C01', f'{tag}: expected exactly one delivery, observed {len(calls)}: '
                                       f'{[(c.side, c.port, c.event) for c in calls]}', ctx))
        return
    c = calls[0]
    if (c.side, c.port, c.event) != (expect_side, prt.name, ev.name):
        findings.append(Finding('C01', f'{tag}: delivered to {c.side}.{c.port}.{c.event} instead of '
                                       f'{expect_side}.{prt.name}.{ev.name}', ctx))
        return
    # argument integrity: valid for ALL argument values
    for i, (fname, fdir, _ft) in enumerate(ev.formals):
        reads = fdir in ('in', 'inout') or ev.direction == 'out'
        if reads:
            if c.args[i] is None:
                findings.append(Finding('C01', f'{tag}: argument {i} ({fname}) not received', ctx))
                continue
            ok, model = oracle.valid(c.args[i] == passed[i])
            if not ok:
                findings.append(Finding('C01', f'{tag}: argument {i} ({fname}) arrives changed',
                                        dict(ctx, values=model_values(model, passed + [c.args[i]]))))
        if i in c.wrote:
            got = after[i]
            term = got.term if isinstance(got, M.Sym) else got
            ok, model = oracle.valid(term == c.wrote[i])
            if not ok:
                findings.append(Finding('C01', f'{tag}: out/inout argument {i} ({fname}) is not carried back '
                                               'to the caller', dict(ctx, values=model_values(model, [term, c.wrote[i]]))))
    if ev.reply != 'void':
        term = ret.term if isinstance(ret, M.Sym) else ret
        if term is None:
            findings.append(Finding('C01', f'{tag}: reply value is dropped', ctx))
        else:
            ok, model = oracle.valid(term == c.reply)
            if not ok:
                findings.append(Finding('C01', f'{tag}: reply value is not the callee\'s reply',
                                        dict(ctx, values=model_values(model, [term, c.reply]))))
    # execution context (C02)
    if 'C02' in props and inbound:
        if sem == 'MTS' and not c.in_dispatcher:
            findings.append(Finding('C02', f'{tag}: MTS inbound event executed outside the dispatcher context', ctx))
        if sem == 'STS' and (c.in_dispatcher or pump.executed != x0 or len(pump.queue) != q0):
            findings.append(Finding('C02', f'{tag}: STS event passed through the dispatcher', ctx))


def routing(prog: Program, ports_cfg, stats, props=('C01', 'C02'), trace_out=None) -> List[Finding]:
    info = prog.info
    model: fam.Model = info['model']
    sems = expected_semantics(info, ports_cfg)
    mc = ports_cfg.multiclient
    findings: List[Finding] = []

    def scenario(oracle):
        w = World(prog, oracle, info['case'].origin, services_for(info['case'].origin))
        if trace_out is not None:
            del trace_out[:]
            w.trace_out = trace_out
        w.construct_shell(mc is not None)
        shell_fields = set(w.shell.v.fields)
        for prt in _exposed(model):
            sem = sems[prt.name]
            itf = w.itf_of(prt)
            enc_port = w.encapsulee().fields[prt.name]
            is_mc = mc is not None and prt.name == mc.port_name
            clients = ['c0', 'c1'] if is_mc else [None]
            handles = {}
            for cl in clients:
                handles[cl] = w.accessor(prt, cl)
            # ---- C02: accessor type and identity of the port handed out
            if 'C02' in props:
                for cl, (ploc, rtype) in handles.items():
                    want = 'Mts<' if sem == 'MTS' else 'Sts<'
                    if want not in rtype.replace(' ', '').replace('::', ''):
                        findings.append(Finding('C02', f'accessor of {sem} port {prt.name} returns {rtype}',
                                                {'port': prt.name}))
                    member = ('m_pp' if prt.direction == 'provides' else 'm_rp') + cap(prt.name)
                    if sem == 'STS':
                        if ploc is not enc_port:
                            findings.append(Finding('C02', f'STS accessor of {prt.name} does not hand out the '
                                                           'wrapped component\'s own port object', {'port': prt.name}))
                        if member in shell_fields:
                            findings.append(Finding('C02', f'STS port {prt.name} has a rerouting member {member}',
                                                    {'port': prt.name}))
                    elif ploc is enc_port:
                        findings.append(Finding('C02', f'MTS accessor of {prt.name} hands out the component\'s '
                                                       'own port (no rerouting)', {'port': prt.name}))
            # ---- bind handlers on the far side of every slot
            for ev in itf.events:
                user_binds = (prt.direction == 'provides') == (ev.direction == 'out')
                if user_binds:
                    for cl, (ploc, _t) in handles.items():
                        side = 'user' if cl is None else f'client:{cl}'
                        w.bind(w.slot(ploc, ev.direction, ev.name), w.handler(side, prt, ev))
                else:
                    w.bind(w.comp_slot(prt, ev), w.handler('comp', prt, ev))
            # ---- invoke every slot
            for ev in itf.events:
                user_calls = (prt.direction == 'provides') == (ev.direction == 'in')
                if user_calls:
                    for cl, (ploc, _t) in handles.items():
                        tag = f'{prt.name}.{ev.direction}.{ev.name}' + (f'@{cl}' if cl else '')
                        if is_mc and mc is not None and ev.name == mc.claim_event_name:
                            continue          # claim/release of a multi-client port: see C04 scenarios
                        if is_mc and mc is not None and ev.name == mc.release_event_name:
                            continue
                        check_event(w, oracle, prt, ev, w.slot(ploc, ev.direction, ev.name), 'comp', sem,
                                    True, findings, tag, props)
                elif not is_mc:
                    tag = f'{prt.name}.{ev.direction}.{ev.name}(component)'
                    check_event(w, oracle, prt, ev, w.slot(enc_port, ev.direction, ev.name), 'user', sem,
                                False, findings, tag, props)
        return None

    explore.explore(scenario, stats)
    # one finding per distinct text
    seen, out = set(), []
    for f in findings:
        if f.what not in seen:
            seen.add(f.what)
            out.append(f)
    return [f for f in out if f.prop in props]


# ---------------------------------------------------------------------------------------------------------
# C09: facilities
# ---------------------------------------------------------------------------------------------------------

def facilities(prog: Program, ports_cfg, stats) -> List[Finding]:
    info = prog.info
    origin = info['case'].origin
    mc = ports_cfg.multiclient
    findings: List[Finding] = []
    has_pump, has_rt, has_other = z3.Bools('has_pump has_runtime has_other')

    def scenario(oracle):
        w = World(prog, oracle, origin, {'dzn::pump': has_pump, 'dzn::runtime': has_rt,
                                         'OtherService': has_other})
        threw = None
        try:
            w.construct_shell(mc is not None)
        except M.CppThrow as exc:
            threw = exc
        except M.UninitRead as exc:
            findings.append(Finding('C09', f'a member is used before it is constructed: {exc}', {}))
            return None
        bad_create = z3.Or(has_pump, has_rt)
        bad_import = z3.Or(z3.Not(has_pump), z3.Not(has_rt))
        must_throw = bad_create if origin == FacilitiesOrigin.CREATE else bad_import
        if threw is not None:
            ok, model = oracle.valid(must_throw)
            if not ok:
                findings.append(Finding('C09', f'construction fails ({threw}) although the user\'s locator is '
                                               f'acceptable for {origin.name}',
                                        {'locator': model_values(model, [has_pump, has_rt, has_other])}))
            if 'runtime_error' not in threw.type_name:
                findings.append(Finding('C09', f'construction fails with {threw.type_name}', {}))
            return None
        ok, model = oracle.valid(z3.Not(must_throw))
        if not ok:
            findings.append(Finding('C09', f'construction succeeds although it must fail for {origin.name}',
                                    {'locator': model_values(model, [has_pump, has_rt, has_other])}))
            return None
        enc = w.encapsulee()
        user_loc: M.LocatorV = w.user_locator.v
        if dict(user_loc.services) != w.user_locator_snapshot:
            findings.append(Finding('C09', 'the user\'s (prototype) locator was modified', {}))
        if origin == FacilitiesOrigin.CREATE:
            for member in ('m_runtime', 'm_dispatcher', 'm_locator'):
                if member not in w.shell.v.fields:
                    findings.append(Finding('C09', f'CREATE shell owns no {member}', {}))
                    return None
            own: M.LocatorV = w.m.load(w.shell_field('m_locator'))
            if enc.fields.get('dzn_locator') is not w.shell_field('m_locator'):
                findings.append(Finding('C09', 'the wrapped component is not constructed with the shell\'s own '
                                               'locator', {}))
            p = own.services.get('dzn::pump')
            r = own.services.get('dzn::runtime')
            if p is None or p[1] is not w.shell_field('m_dispatcher') or p[0] is not True:
                findings.append(Finding('C09', 'the shell\'s locator does not hold the shell\'s own dispatcher', {}))
            if r is None or r[1] is not w.shell_field('m_runtime') or r[0] is not True:
                findings.append(Finding('C09', 'the shell\'s locator does not hold the shell\'s own runtime', {}))
            o = own.services.get('OtherService')
            if o is None or o[1] is not w.other_service or not z3.eq(z3.simplify(o[0] == has_other), z3.BoolVal(True)):
                if not (o is not None and o[1] is w.other_service and o[0] is has_other):
                    findings.append(Finding('C09', 'services of the prototype locator are not carried over', {}))
            if not w.has_method('Locator'):
                findings.append(Finding('C09', 'CREATE shell offers no Locator() accessor', {}))
            else:
                res = w.call_method('Locator', [])
                if res is not w.shell_field('m_locator'):
                    findings.append(Finding('C09', 'Locator() does not return the shell\'s locator', {}))
            if isinstance(w.dispatcher(), M.PumpV) and w.shell_field('m_dispatcher') is w.user_pump:
                findings.append(Finding('C09', 'CREATE shell uses the user\'s dispatcher', {}))
        else:
            if w.shell_field('m_dispatcher') is not w.user_pump:
                findings.append(Finding('C09', 'IMPORT shell does not use the dispatcher found in the user\'s '
                                               'locator', {}))
            if enc.fields.get('dzn_locator') is not w.user_locator:
                findings.append(Finding('C09', 'IMPORT shell does not hand the user\'s locator to the component', {}))
            if w.has_method('Locator'):
                findings.append(Finding('C09', 'IMPORT shell offers a Locator() accessor', {}))
            for member in ('m_runtime', 'm_locator'):
                if member in w.shell.v.fields:
                    findings.append(Finding('C09', f'IMPORT shell owns a {member}', {}))
        return None

    explore.explore(scenario, stats)
    seen, out = set(), []
    for f in findings:
        if f.what not in seen:
            seen.add(f.what)
            out.append(f)
    return out


# ---------------------------------------------------------------------------------------------------------
# C10: FinalConstruct
# ---------------------------------------------------------------------------------------------------------

def final_construct(prog: Program, ports_cfg, stats) -> List[Finding]:
    info = prog.info
    model: fam.Model = info['model']
    mc = ports_cfg.multiclient
    findings: List[Finding] = []

    def scenario(oracle):
        w = World(prog, oracle, info['case'].origin, services_for(info['case'].origin))
        w.construct_shell(mc is not None)
        bound: Dict[str, Any] = {}
        for prt in _exposed(model):
            itf = w.itf_of(prt)
            enc_port = w.encapsulee().fields[prt.name]
            is_mc = mc is not None and prt.name == mc.port_name
            clients = ['c0', 'c1'] if is_mc else [None]
            handles = {cl: w.accessor(prt, cl)[0] for cl in clients}
            for ev in itf.events:
                user_binds = (prt.direction == 'provides') == (ev.direction == 'out')
                if user_binds:
                    for cl, ploc in handles.items():
                        name = f'user:{prt.name}{"@" + cl if cl else ""}.{ev.direction}.{ev.name}'
                        b = z3.Bool(name)
                        bound[name] = b
                        w.m.store(w.slot(ploc, ev.direction, ev.name), M.FuncV('symbolic', b))
                else:
                    name = f'comp:{prt.name}.{ev.direction}.{ev.name}'
                    b = z3.Bool(name)
                    bound[name] = b
                    w.m.store(w.slot(enc_port, ev.direction, ev.name), M.FuncV('symbolic', b))
        parent = M.Loc(M.StructV('dzn::meta', None), 'parent-meta')
        try:
            w.call_method('FinalConstruct', [M.PtrV(parent)])
        except M.CppThrow as exc:
            if 'binding_error' not in exc.type_name and 'runtime_error' not in exc.type_name:
                findings.append(Finding('C10', f'FinalConstruct fails with {exc.type_name}: {exc.what}', {}))
            # a failure is only legitimate when something is unbound
            all_bound = z3.And(*bound.values()) if bound else z3.BoolVal(True)
            ok, _m = oracle.valid(z3.Not(all_bound))
            if not ok:
                findings.append(Finding('C10', f'FinalConstruct fails ({exc.what}) although every event is bound', {}))
            return None
        all_bound = z3.And(*bound.values()) if bound else z3.BoolVal(True)
        ok, mdl = oracle.valid(all_bound)
        if not ok:
            unbound = [k for k, b in bound.items() if z3.is_false(mdl.eval(b, model_completion=True))]
            findings.append(Finding('C10', 'FinalConstruct returns normally although an event is unbound: '
                                           + ', '.join(sorted(unbound)[:4]), {'unbound': sorted(unbound)}))
        got = w.m.load(w.m.load(w.encapsulee().fields['dzn_meta']).fields['parent'])
        if not isinstance(got, M.PtrV) or got.target is not parent:
            findings.append(Finding('C10', 'FinalConstruct does not record the given parent in the component\'s '
                                           'meta information', {}))
        if mc is not None:
            prt = next(p for p in model.ports if p.name == mc.port_name)
            try:
                w.accessor(prt, 'late-client')
                findings.append(Finding('C10', 'a client can still be registered after FinalConstruct', {}))
            except M.CppThrow:
                pass
            try:   # registered clients stay reachable
                w.accessor(prt, 'c0')
            except M.CppThrow as exc:
                findings.append(Finding('C10', f'a registered client port is no longer reachable: {exc}', {}))
        return None

    explore.explore(scenario, stats, max_paths=400)
    seen, out = set(), []
    for f in findings:
        if f.what not in seen:
            seen.add(f.what)
            out.append(f)
    return out


# ---------------------------------------------------------------------------------------------------------
# C04: one step of the multi-client selector from every invariant-satisfying state
# ---------------------------------------------------------------------------------------------------------

def multi_client_step(prog: Program, ports_cfg, stats, n_clients: int = 3) -> List[Finding]:
    info = prog.info
    model: fam.Model = info['model']
    mc = ports_cfg.multiclient
    if mc is None:
        return []
    prt = next(p for p in model.ports if p.name == mc.port_name)
    itf = next(i for i in model.itfs if i.name == prt.itf)
    claim = next(e for e in itf.events if e.name == mc.claim_event_name)
    release = next(e for e in itf.events if e.name == mc.release_event_name)
    others = [e for e in itf.events if e.direction == 'in' and e.name not in (claim.name, release.name)]
    outs = [e for e in itf.events if e.direction == 'out']
    grant = RES_VALUES[mc.claim_granting_reply_value.items[-1]]
    clients = [f'c{i}' for i in range(n_clients)]
    findings: List[Finding] = []
    ops = [('claim', c) for c in clients] + [('release', c) for c in clients] + \
          [('other:' + e.name, c) for e in others for c in clients[:1]] + [('none', None)]

    for pre in [None] + clients:                  # who holds the claim in the pre-state
        for op, actor in ops:
            def scenario(oracle, pre=pre, op=op, actor=actor):
                w = World(prog, oracle, info['case'].origin, services_for(info['case'].origin))
                w.construct_shell(True)
                enc_port = w.encapsulee().fields[prt.name]
                handles = {c: w.accessor(prt, c)[0] for c in clients}
                claim_reply = {'t': None}
                for ev in itf.events:
                    if ev.direction == 'out':
                        for c, ploc in handles.items():
                            w.bind(w.slot(ploc, 'out', ev.name), w.handler(f'client:{c}', prt, ev))
                    else:
                        w.bind(w.comp_slot(prt, ev), w.handler('comp', prt, ev))
                for other in _exposed(model):                 # all remaining ports fully bound
                    if other.name == prt.name:
                        continue
                    oloc, _t = w.accessor(other)
                    oenc = w.encapsulee().fields[other.name]
                    for ev in w.itf_of(other).events:
                        user_binds = (other.direction == 'provides') == (ev.direction == 'out')
                        w.bind(w.slot(oloc, ev.direction, ev.name) if user_binds else w.comp_slot(other, ev),
                               w.handler('user' if user_binds else 'comp', other, ev))
                w.call_method('FinalConstruct', [M.PtrV(None)])
                holder = None
                ctx = {'pre_holder': pre, 'op': op, 'actor': actor, 'clients': clients,
                       'history': []}
                # reach the pre-state through a real history: `pre` claims and is granted
                if pre is not None:
                    n0 = len(w.calls)
                    _p, _a, ret = w.invoke(w.slot(handles[pre], 'in', claim.name), claim, f'pre-claim@{pre}')
                    if not w.m.decide(w.calls[n0].reply == grant):
                        return 'skip'          # the not-granted branch of the pre-state history
                    holder = pre
                    ctx['history'].append(f'{pre}.{claim.name} -> granted')
                    if current_selection(w, prt) != pre:
                        findings.append(Finding('C04', f'a granted claim by {pre} does not select {pre}', ctx))
                        return None
                # ---- the step
                if op == 'claim':
                    n0 = len(w.calls)
                    nf = len(findings)
                    # forwarded exactly once, through the dispatcher, arguments / out / inout / reply intact
                    check_event(w, oracle, prt, claim, w.slot(handles[actor], 'in', claim.name), 'comp', 'MTS',
                                True, findings, f'{prt.name}.in.{claim.name}@{actor}', props=('C01', 'C02'))
                    calls = w.calls[n0:]
                    if len(findings) > nf or len(calls) != 1:
                        for f in findings[nf:]:
                            f.witness.update(ctx)
                        return None
                    # the scenario itself forks on "was the claim granted" (independent of how the code
                    # under test branches on the reply)
                    granted_v = w.m.decide(calls[0].reply == grant)
                    if holder is not None and holder != actor and granted_v:
                        return 'skip'      # exclusive-access protocol: refused while somebody else holds
                    if granted_v:
                        holder = actor
                    mdl = oracle.model()
                    if mdl is not None:
                        ctx['claim_reply'] = mdl.eval(calls[0].reply, model_completion=True).as_long()
                    ctx['history'].append(f'{actor}.{claim.name} -> {"granted" if granted_v else "refused"}')
                elif op == 'release':
                    n0 = len(w.calls)
                    nf = len(findings)
                    check_event(w, oracle, prt, release, w.slot(handles[actor], 'in', release.name), 'comp', 'MTS',
                                True, findings, f'{prt.name}.in.{release.name}@{actor}', props=('C01', 'C02'))
                    if len(findings) > nf or len(w.calls[n0:]) != 1:
                        for f in findings[nf:]:
                            f.witness.update(ctx)
                        return None
                    if holder == actor:
                        holder = None
                    ctx['history'].append(f'{actor}.{release.name}')
                elif op.startswith('other:'):
                    ev = next(e for e in others if e.name == op.split(':', 1)[1])
                    check_event(w, oracle, prt, ev, w.slot(handles[actor], 'in', ev.name), 'comp', 'MTS',
                                True, findings, f'{prt.name}.in.{ev.name}@{actor}', props=('C01', 'C02'))
                    ctx['history'].append(f'{actor}.{ev.name}')
                # ---- observe: every component out-event goes to the holder and nobody else
                for ev in outs:
                    n0 = len(w.calls)
                    passed, _after, _ret = w.invoke(w.slot(enc_port, 'out', ev.name), ev, f'out.{ev.name}')
                    w.drain()
                    got = [(c.side, c.event) for c in w.calls[n0:]]
                    want = [(f'client:{holder}', ev.name)] if holder is not None else []
                    if got != want:
                        findings.append(Finding(
                            'C04', f'after {ctx["history"]}: out-event {ev.name} delivered to {got}, the claim '
                                   f'holder is {holder}', dict(ctx, holder=holder, delivered=got,
                                                               key=f'{pre}|{op}|{actor}')))
                    elif holder is not None:
                        c = w.calls[n0]
                        for i, _f in enumerate(ev.formals):
                            ok, _m = oracle.valid(c.args[i] == passed[i])
                            if not ok:
                                findings.append(Finding('C04', f'out-event {ev.name} argument {i} arrives changed', ctx))
                return None

            def guarded(oracle, scenario=scenario, pre=pre, op=op, actor=actor):
                try:
                    return scenario(oracle)
                except M.Dangling as exc:
                    findings.append(Finding(
                        'C04', f'the per-client handlers use an object of the registering call after it returned '
                               f'({exc}): the client identifier is not captured by value',
                        {'pre_holder': pre, 'op': op, 'actor': actor, 'clients': clients, 'dangling': True}))
                    return None

            explore.explore(guarded, stats)
    return findings


def current_selection(w: World, prt: fam.Prt) -> Optional[str]:
    """read the selector's current client (inspection only, no code executed)"""
    sel = w.m.load(w.shell_field('m_pp' + cap(prt.name)))
    cs = w.m.load(sel.fields['m_clientSelect'])
    opt = w.m.load(cs.fields['m_protectee'])
    if not opt.has:
        return None
    cp = w.m.load(opt.val.target)
    return w.m.load(cp.fields['identifier'])
