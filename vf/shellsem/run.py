"""Run a ShellSem property query over the program family in parallel worker processes."""
import os
import shutil
import tempfile
import time
import traceback
from concurrent.futures import ProcessPoolExecutor
from typing import Dict, List, Tuple

from .. import family as fam

NCPU = int(os.environ.get('VF_JOBS', os.cpu_count() or 4))


def analyse_case(args) -> Dict:
    idx, what, opts = args
    from . import frontend, program, scenarios, explore
    from .program import Unsupported
    from . import machine as M
    case, pc = fam.ALL_CASES[idx]
    out = {'idx': idx, 'label': case.label, 'status': 'ok', 'findings': [], 'detail': '',
           'stats': {'queries': 0, 'solver_s': 0.0, 'paths': 0}, 'wall_s': 0.0, 'clang_s': 0.0}
    t0 = time.time()
    d = tempfile.mkdtemp(prefix='vfss_')
    try:
        info = frontend.emit_program(case, pc, d)
        info['has_mc'] = pc.multiclient is not None
        asts = frontend.load_asts(info)
        out['clang_s'] = round(time.time() - t0, 2)
        prog = program.Program(asts, info)
        fn = {'routing_c01': lambda: scenarios.routing(prog, pc, out['stats'], ('C01',)),
              'routing_c02': lambda: scenarios.routing(prog, pc, out['stats'], ('C02',)),
              'facilities': lambda: scenarios.facilities(prog, pc, out['stats']),
              'final_construct': lambda: scenarios.final_construct(prog, pc, out['stats']),
              'mc_step': lambda: scenarios.multi_client_step(prog, pc, out['stats'],
                                                             opts.get('n_clients', 2)),
              'mc_threads': None}[what]
        if what == 'mc_threads':
            findings = _mc_threads(prog, pc, info, d, opts, out)
        else:
            findings = fn()
        out['findings'] = [{'prop': f.prop, 'what': f.what, 'witness': _plain(f.witness)} for f in findings]
    except (Unsupported, explore.Inconclusive, frontend.FrontendError) as exc:
        out['status'] = 'inconclusive'
        out['detail'] = f'{type(exc).__name__}: {exc}'[:400]
    except (M.CppThrow, M.Dangling, M.Deadlock, M.UninitRead) as exc:
        out['status'] = 'inconclusive'
        out['detail'] = f'uncaught {type(exc).__name__}: {exc}'[:400]
    except Exception as exc:  # pylint: disable=broad-except
        out['status'] = 'inconclusive'
        out['detail'] = f'machine error {type(exc).__name__}: {exc} | ' + traceback.format_exc()[-600:]
    finally:
        shutil.rmtree(d, ignore_errors=True)
    out['wall_s'] = round(time.time() - t0, 2)
    return out


def _mc_threads(prog, pc, info, d, opts, out):
    """C11: schedule exploration on the abstract machine, then trusted-base validation on the compiled program:
    sampled schedules must give the same observable events, and free runs under ThreadSanitizer must be silent
    unless the machine found a race as well."""
    from . import tscenario, cppthreads
    from .scenarios import Finding
    findings = list(tscenario.mutex_wrapped_protocol(prog, pc, out['stats']))
    val = {'checked': 0, 'agree': 0, 'detail': '', 'events': 0, 'tsan_runs': 0, 'schedules': 0}
    out['validation'] = val
    clients = ['c0', 'c1']
    configs = list(opts.get('configs', [(1, 1, 2, 2)]))
    if out['idx'] % opts.get('sparse_every', 6) == 0:
        configs += list(opts.get('sparse_configs', []))      # the expensive configurations on every k-th program
    val['configs'] = [list(c) for c in configs]
    for cfgi, cfg in enumerate(configs):
        cycles, n_out, preempt = cfg[:3]
        clients = [f'c{i}' for i in range(cfg[3] if len(cfg) > 3 else 2)]
        variant = cfg[4] if len(cfg) > 4 else 0
        samples: List = []
        before = out['stats']['paths']
        fs = tscenario.mc_threads(prog, pc, out['stats'], cycles=cycles, n_out=n_out, max_preempt=preempt,
                                  max_schedules=opts.get('max_schedules', 20000), n_clients=len(clients), variant=variant,
                                  samples_out=samples, sample_every=opts.get('sample_every', 97))
        for f in fs:
            f.witness['clients'] = clients
        findings += [f for f in fs if f.witness.get('key') not in {g.witness.get('key') for g in findings}]
        val['schedules'] += out['stats']['paths'] - before
        n_val = opts.get('n_validate', 3)
        if n_val and samples:
            exe, diag = cppthreads.build(info, pc, d, cycles, n_out, clients, variant=variant)
            if not exe:
                val['detail'] = 'threaded driver does not compile: ' + diag[:300]
                continue
            step = max(1, len(samples) // n_val)
            for smp in samples[::step][:n_val]:
                st, stdout, _err = cppthreads.run(exe, smp['schedule'])
                ce = cppthreads.events_of(stdout)
                me = [tuple(e) for e in smp['events']]
                val['checked'] += 1
                if st == 'ok' and ce == me and bool(cppthreads.judge(stdout)) == bool(smp.get('bad_delivery')):
                    val['agree'] += 1
                    val['events'] += len(me)
                elif not val['detail']:
                    val['detail'] = (f'schedule {",".join(smp["schedule"])}: machine events {me} vs compiled '
                                     f'{ce} ({st})')[:900]
    # MutexWrapped on the compiled header
    st, fails = cppthreads.run_mutex_wrapped(info, d)
    if st == 'ok':
        machine_mw = [f for f in findings if f.witness.get('mw')]
        if bool(fails) != bool(machine_mw) and not val['detail']:
            val['detail'] = f'MutexWrapped: machine {[f.what for f in machine_mw]} vs compiled {fails}'
            val['checked'] += 1
        else:
            val['checked'] += 1
            val['agree'] += 1
    elif not val['detail']:
        val['detail'] = 'MutexWrapped driver: ' + st
    # free runs under ThreadSanitizer
    n_tsan = opts.get('tsan_runs', 0)
    if n_tsan:
        cycles, n_out = opts.get('configs', [(1, 1, 2)])[-1][:2]
        exe, diag = cppthreads.build(info, pc, d, max(cycles, 2), max(n_out, 2), clients, tsan=True)
        if exe:
            reports = set()
            for _ in range(n_tsan):
                st, _o, err = cppthreads.run(exe, [], timeout=120)
                val['tsan_runs'] += 1
                if st == 'timeout':
                    reports.add('free run does not terminate (deadlock)')
                reports.update(cppthreads.tsan_reports(err))
            machine_race = any(str(f.witness.get('key', '')).startswith('C11:race') or 'deadlock' in f.what for f in findings)
            if reports and not machine_race:
                for r in sorted(reports)[:3]:
                    findings.append(Finding('C11', f'ThreadSanitizer on the compiled program: {r}',
                                            {'key': 'C11:tsan:' + r.split(':')[0], 'tsan': True, 'clients': clients,
                                             'cycles': max(cycles, 2), 'n_out': max(n_out, 2)}))
        elif not val['detail']:
            val['detail'] = 'ThreadSanitizer build failed: ' + diag[:300]
    return findings


def _plain(x):
    if isinstance(x, dict):
        return {str(k): _plain(v) for k, v in x.items()}
    if isinstance(x, (list, tuple)):
        return [_plain(v) for v in x]
    if isinstance(x, (str, int, float, bool)) or x is None:
        return x
    return str(x)


def run_family(what: str, indices: List[int], opts=None) -> List[Dict]:
    jobs = [(i, what, opts or {}) for i in indices]
    with ProcessPoolExecutor(max_workers=NCPU) as pool:
        return list(pool.map(analyse_case, jobs, chunksize=1))


def validate_case(idx: int) -> Dict:
    """Machine vs compiled program on the routing scenario of one case (trusted-base validation)."""
    from . import frontend, program, scenarios, concrete, explore
    case, pc = fam.ALL_CASES[idx]
    out = {'idx': idx, 'label': case.label, 'agree': None, 'detail': ''}
    d = tempfile.mkdtemp(prefix='vfsv_')
    try:
        info = frontend.emit_program(case, pc, d)
        info['has_mc'] = pc.multiclient is not None
        prog = program.Program(frontend.load_asts(info), info)
        trace: List = []
        stats = {'queries': 0, 'solver_s': 0.0, 'paths': 0}
        mfind = scenarios.routing(prog, pc, stats, ('C01', 'C02'), trace_out=trace)
        summ, cfind, raw = concrete.run_routing(info, pc, d)
        mt = [(t['tag'], [tuple(c) for c in t['calls']]) for t in trace]
        ct = [(t['tag'], [tuple(c) for c in t['calls']]) for t in summ]
        m_tags = sorted({f.what.split(':')[0] for f in mfind})
        c_tags = sorted({f.split(':')[0] for f in cfind})
        out['agree'] = (mt == ct) and (m_tags == c_tags)
        if not out['agree']:
            out['detail'] = f'machine trace {mt[:3]}... findings {m_tags} vs compiled {ct[:3]}... findings {c_tags}'[:600]
        out['n_events'] = len(mt)
    except Exception as exc:  # pylint: disable=broad-except
        out['agree'] = None
        out['detail'] = f'{type(exc).__name__}: {exc}'[:300]
    finally:
        shutil.rmtree(d, ignore_errors=True)
    return out


def replay_finding(args) -> Dict:
    """Re-run the scenario of a finding on the g++-compiled program; does the property fail there too?"""
    idx, what, finding = args
    from . import frontend, concrete
    case, pc = fam.ALL_CASES[idx]
    out = {'idx': idx, 'reproduced': None, 'detail': ''}
    d = tempfile.mkdtemp(prefix='vfsr_')
    try:
        info = frontend.emit_program(case, pc, d)
        info['has_mc'] = pc.multiclient is not None
        text = finding['what']
        wit = finding.get('witness', {})
        if what.startswith('routing'):
            asan = 'dead stack frame' in text or 'dangling' in text
            summ, cfind, raw = concrete.run_routing(info, pc, d) if not asan else \
                concrete.run_routing_asan(info, pc, d)
            tag = text.split(':')[0]
            same = [f for f in cfind if f.split(':')[0] == tag]
            out['reproduced'] = bool(same)
            out['detail'] = '; '.join(same)[:300] if same else f'compiled program shows no deviation at {tag}: {cfind[:3]}'
        elif what == 'mc_step':
            pre, op, actor = wit.get('pre_holder'), wit.get('op'), wit.get('actor')
            res, raw = concrete.run_mc_history(info, pc, d, pre, op, actor, wit.get('clients', ['c0', 'c1']),
                                                wit.get('claim_reply'), asan=bool(wit.get('dangling')))
            if wit.get('dangling'):
                out['reproduced'] = 'ASAN-REPORT' in raw
                out['detail'] = raw[raw.find('ASAN-REPORT'):][:400] if out['reproduced'] else \
                    'AddressSanitizer reports nothing for the same history'
            elif '__error__' in res:
                out['detail'] = str(res['__error__'])[:300]
            else:
                holder = res['__holder__'][0]
                want = [] if holder == 'None' else [f'client:{holder}']
                bad = {k: v for k, v in res.items() if not k.startswith('__') and not k.startswith('step:') and v != want}
                step_findings = res.get('__step_findings__', [])
                if 'out-event' in text and 'delivered to' in text:
                    out['reproduced'] = bool(bad)
                else:
                    out['reproduced'] = bool(step_findings) or _step_deviates(res, text)
                out['detail'] = (f'holder={holder} deliveries={ {k: v for k, v in res.items() if not k.startswith("__")} } '
                                 f'step: {step_findings}')[:500]
        elif what == 'mc_threads':
            from . import cppthreads
            key = str(wit.get('key', ''))
            clients = wit.get('clients', ['c0', 'c1'])
            if wit.get('mw'):            # MutexWrapped protocol
                st, fails = cppthreads.run_mutex_wrapped(info, d)
                out['reproduced'] = bool(fails) if st == 'ok' else None
                out['detail'] = f'{st}: {fails}'
            elif wit.get('tsan') or key.startswith('C11:race'):
                reps = set()
                how = ''
                if wit.get('schedule'):
                    # the machine's schedule on the ThreadSanitizer build (gates do not synchronise there)
                    exe, diag = cppthreads.build(info, pc, d, wit.get('cycles', 1), wit.get('n_out', 1), clients, tsan=True,
                                                 variant=wit.get('variant', 0))
                    if exe:
                        st, _o, err = cppthreads.run(exe, wit['schedule'], timeout=120)
                        reps.update(cppthreads.tsan_reports(err))
                        how = 'under the schedule of the finding'
                if not reps:
                    exe, diag = cppthreads.build(info, pc, d, max(wit.get('cycles', 1), 2), max(wit.get('n_out', 1), 2),
                                                 clients, tsan=True, variant=wit.get('variant', 0))
                    if exe:
                        for _ in range(12):
                            st, _o, err = cppthreads.run(exe, [], timeout=120)
                            reps.update(cppthreads.tsan_reports(err))
                            if reps:
                                how = 'in a free run'
                                break
                if exe:
                    out['reproduced'] = bool(reps)
                    out['detail'] = ('ThreadSanitizer ' + how + ': ' + '; '.join(sorted(reps)))[:400] if reps else \
                        'ThreadSanitizer silent under the schedule and in 12 free runs'
                else:
                    out['detail'] = 'TSan build failed: ' + diag[:200]
            else:
                exe, diag = cppthreads.build(info, pc, d, wit.get('cycles', 1), wit.get('n_out', 1), clients,
                                             variant=wit.get('variant', 0))
                if not exe:
                    out['detail'] = 'build failed: ' + diag[:200]
                else:
                    st, stdout, _e = cppthreads.run(exe, wit.get('schedule', []))
                    if 'exception-escapes' in key:
                        exc_name = str(wit.get('exception', '')).split('::')[-1]
                        out['reproduced'] = st == 'crash' and ('terminate' in _e or exc_name in _e)
                        out['detail'] = ('compiled program: ' + _e.strip().replace('\n', ' | ')[:300]) if st == 'crash' \
                            else f'compiled program ends normally under the schedule ({st})'
                    elif 'deadlock' in key:
                        out['reproduced'] = st == 'timeout'
                        out['detail'] = 'compiled program does not terminate under the schedule' if st == 'timeout' \
                            else 'compiled program terminates under the schedule'
                    elif 'lock-then-dispatcher' in key:
                        hz = [h for h in cppthreads.hazards_of(stdout) if h.startswith('lock-then-dispatcher')]
                        out['reproduced'] = bool(hz)
                        out['detail'] = '; '.join(hz)[:200]
                    elif 'outside the dispatcher' in text:
                        hz = [h for h in cppthreads.hazards_of(stdout) if h.startswith('outside-dispatcher')]
                        out['reproduced'] = bool(hz)
                        out['detail'] = '; '.join(hz)[:200]
                    else:
                        j = cppthreads.judge(stdout)
                        out['reproduced'] = bool(j) if st == 'ok' else None
                        out['detail'] = ('; '.join(j) or 'every out-event reached the holder')[:300] + \
                            ' | events: ' + ' '.join(f'{t}:{e}' for t, e in cppthreads.events_of(stdout))[:600]
        elif what == 'facilities':
            hits = []
            for hp in (False, True):
                for hr in (False, True):
                    for ho in (False, True):
                        f, raw = concrete.run_facilities(info, pc, d, hp, hr, ho)
                        hits += f
            key = text.split('(')[0][:40]
            out['reproduced'] = any(h[:40] == key or h == text for h in hits)
            out['detail'] = '; '.join(sorted(set(hits)))[:400]
        elif what == 'final_construct':
            unbound = wit.get('unbound', [])
            res, raw = concrete.run_final_construct(info, pc, d, unbound[:1])
            if 'returns normally' in text:
                out['reproduced'] = res == 'ok' and bool(unbound)
            elif 'parent' in text:
                out['reproduced'] = 'PARENT_SET 0' in raw
            elif 'still be registered' in text:
                out['reproduced'] = 'LATE ok' in raw
            elif 'although every event is bound' in text or 'fails with' in text:
                out['reproduced'] = res.startswith('throw')
            out['detail'] = f'FinalConstruct with {unbound[:1]} unbound -> {res}'
    except Exception as exc:  # pylint: disable=broad-except
        out['detail'] = f'{type(exc).__name__}: {exc}'[:300]
    finally:
        shutil.rmtree(d, ignore_errors=True)
    return out


def _step_deviates(res: Dict, text: str) -> bool:
    steps = {k: v for k, v in res.items() if k.startswith('step:')}
    for k, v in steps.items():
        if k.startswith('step:pre-claim'):
            continue
        if len(v) != 1 or not v[0].startswith('comp.'):
            return True
    return False


def run_parallel(fn, jobs: List) -> List[Dict]:
    if not jobs:
        return []
    with ProcessPoolExecutor(max_workers=min(NCPU, len(jobs))) as pool:
        return list(pool.map(fn, jobs, chunksize=1))
