"""C11: the generated multi-client support under thread interleavings (threaded ShellSem).

Threads: one per client (claim; use; release cycles on its own client port) and an environment thread
that lets the component raise out-events on the dispatcher at arbitrary moments.  The mock component
follows the exclusive-access protocol (it grants a claim only while nobody holds one).  Every schedule
with at most `max_preempt` preemptions is executed (stateless search by re-execution; the schedule
choices are decisions of the z3-backed oracle).  Checked on every schedule:
  - lock discipline (data-race freedom): every access to the selector's shared state made by different
    threads, at least one of them a write, is protected by a common mutex or by the dispatcher;
  - no deadlock, no thread blocks on the dispatcher while holding the mutex;
  - a client whose claim call returned the granting reply and that has not itself started to release
    receives every out-event the component raises meanwhile (and nobody else does).
"""
from typing import Any, Dict, List, Optional, Tuple

import z3

from .. import family as fam
from . import machine as M
from . import explore
from .program import Program, Unsupported
from .scenarios import Finding, services_for, _exposed
from .threads import Sched, TMachine
from .world import World, RES_VALUES, SORTS, cap


def mc_threads(prog: Program, ports_cfg, stats, cycles: int = 1, n_out: int = 1, max_preempt: int = 2,
               max_schedules: int = 6000, n_clients: int = 2, variant: int = 0, samples_out: Optional[List] = None, sample_every: int = 97) -> List[Finding]:
    info = prog.info
    model: fam.Model = info['model']
    mc = ports_cfg.multiclient
    if mc is None:
        return []
    prt = next(p for p in model.ports if p.name == mc.port_name)
    itf = next(i for i in model.itfs if i.name == prt.itf)
    claim = next(e for e in itf.events if e.name == mc.claim_event_name)
    release = next(e for e in itf.events if e.name == mc.release_event_name)
    works = [e for e in itf.events if e.direction == 'in' and e.name not in (claim.name, release.name)]
    outs = [e for e in itf.events if e.direction == 'out']
    works = [works[variant % len(works)]] if works else []      # which other in-event / out-event is exercised
    outs = [outs[variant % len(outs)]] if outs else []
    grant = RES_VALUES[mc.claim_granting_reply_value.items[-1]]
    refuse = (grant + 1) % 3
    clients = [f'c{i}' for i in range(n_clients)]
    findings: List[Finding] = []
    seen_keys = set()

    def add_global(f: Finding):
        key = f.witness.get('key', f.what)
        if key not in seen_keys:
            seen_keys.add(key)
            findings.append(f)

    counter = {'n': 0}
    discipline = set()

    def scenario(oracle):
        local: List[Finding] = []

        def add(f: Finding):          # findings of this schedule; the schedule is attached at the end
            local.append(f)

        try:
            return run_one(oracle, add, local)
        finally:
            for f in local:
                add_global(f)

    def run_one(oracle, add, local):
        w = World(prog, oracle, info['case'].origin, services_for(info['case'].origin), machine_cls=TMachine)
        m: TMachine = w.m
        w.construct_shell(True)
        enc_port = w.encapsulee().fields[prt.name]
        handles = {c: w.accessor(prt, c)[0] for c in clients}
        comp = {'claimed': False}
        ghost: Dict[str, bool] = {c: False for c in clients}
        deliveries: List[Tuple[str, str]] = []
        events: List[Tuple[str, str]] = []          # observable events (thread, tag) in order

        def args_for(ev):
            return [0 for _ in ev.formals]

        def comp_handler(ev):
            def impl(machine, args):
                events.append((machine.tid(), f'comp.{ev.name}'))
                if not machine.token_holder:
                    add(Finding('C11', f'{ev.name} reaches the component outside the dispatcher',
                                       {'events': list(events), 'key': 'C11:outside-dispatcher'}))
                for i, (fn_, fdir, ft) in enumerate(ev.formals):
                    if fdir != 'in' and isinstance(args[i], M.Loc):
                        machine.store(args[i], M.Sym(w.fresh(SORTS[ft], f'w_{ev.name}_{fn_}')))
                if ev.name == claim.name:
                    if not comp['claimed']:
                        comp['claimed'] = True
                        return grant
                    return refuse
                if ev.name == release.name:
                    comp['claimed'] = False
                    return None
                return refuse if ev.reply != 'void' else None
            return M.External(f'comp.{ev.name}', impl)

        def client_handler(c, ev):
            def impl(machine, args):
                events.append((machine.tid(), f'client:{c}.{ev.name}'))
                deliveries.append((c, ev.name))
                return None
            return M.External(f'client:{c}.{ev.name}', impl)

        for ev in itf.events:
            if ev.direction == 'out':
                for c, ploc in handles.items():
                    w.bind(w.slot(ploc, 'out', ev.name), client_handler(c, ev))
            else:
                w.bind(w.comp_slot(prt, ev), comp_handler(ev))
        for other in _exposed(model):
            if other.name == prt.name:
                continue
            oloc, _t = w.accessor(other)
            for ev in w.itf_of(other).events:
                user_binds = (other.direction == 'provides') == (ev.direction == 'out')
                w.bind(w.slot(oloc, ev.direction, ev.name) if user_binds else w.comp_slot(other, ev),
                       w.handler('user' if user_binds else 'comp', other, ev))
        w.call_method('FinalConstruct', [M.PtrV(None)])
        m.events = events               # log-sink calls are recorded there by the machine
        sel: M.StructV = m.load(w.shell_field('m_pp' + cap(prt.name)))
        mw: M.StructV = m.load(sel.fields['m_clientSelect'])
        # shared state = everything reachable from the selector object (its own fields, the wrapped values, the
        # logger it shares with every call); mutexes are synchronisation objects, not data
        m.watch = {}

        def watch_all(sv: M.StructV, path: str, depth: int):
            for fname, floc in sv.fields.items():
                if not isinstance(floc, M.Loc) or isinstance(floc.v, M.MutexV):
                    continue
                m.watch.setdefault(id(floc), f'{path}{fname}')
                if isinstance(floc.v, M.StructV) and depth < 4:
                    watch_all(floc.v, f'{path}{fname}.', depth + 1)
        watch_all(sel, '', 0)
        m.recording = True
        pump = w.dispatcher()

        def call_slot(slot_loc, ev, tag):
            m.push_frame('Vf', None, f'caller:{tag}')
            try:
                args = [m.new_local(M.Sym(w.fresh(SORTS[ft], f'a_{tag}_{fn}')), f'actual:{fn}')
                        for fn, _d, ft in ev.formals]
                fv = m.load(slot_loc)
                return m.call_funcv(fv, args, tag)
            finally:
                m.pop_frame()

        def client_script(c):
            def run():
                for _ in range(cycles):
                    ret = call_slot(w.slot(handles[c], 'in', claim.name), claim, f'claim@{c}')
                    rv = ret.term if isinstance(ret, M.Sym) else ret
                    if rv == grant:
                        ghost[c] = True
                        events.append((c, 'granted'))
                        for ev in works:
                            call_slot(w.slot(handles[c], 'in', ev.name), ev, f'work@{c}')
                        ghost[c] = False
                        events.append((c, 'releasing'))
                        call_slot(w.slot(handles[c], 'in', release.name), release, f'release@{c}')
            return run

        def env_script():
            for k in range(n_out):
                for ev in outs:
                    def raise_out(ev=ev, k=k):
                        holders = [c for c in clients if ghost[c]]
                        n0 = len(deliveries)
                        events.append(('env', f'raise.{ev.name}'))
                        call_slot(w.slot(enc_port, 'out', ev.name), ev, f'out.{ev.name}')
                        got = [c for c, _e in deliveries[n0:]]
                        if len(holders) == 1 and got != holders:
                            add(Finding('C11', f'client {holders[0]} was granted the claim and has not released, but '
                                               f'out-event {ev.name} was delivered to {got or "nobody"}',
                                        {'events': list(events), 'holder': holders[0], 'delivered': got,
                                         'key': _delivery_key(m, holders[0], got)}))
                        elif not holders and got and not any(ghost.values()):
                            pass        # in-flight grant/release: the property is silent
                    m.run_on_dispatcher(pump, raise_out)

        # ---- schedule choice through the oracle, with a preemption bound
        state = {'preempt': max_preempt, 'k': 0}

        def choose(enabled: List[str], current: Optional[str]) -> str:
            if current is not None:
                options = [current] + ([t for t in enabled if t != current] if state['preempt'] > 0 else [])
            else:
                options = list(enabled)
            pick = options[-1]
            if len(options) > 1:
                state['k'] += 1
                s = z3.Int(f'sched{state["k"]}')
                oracle.assume(z3.And(s >= 0, s < len(options)))
                for i in range(len(options) - 1):
                    if oracle.decide(s == i):
                        pick = options[i]
                        break
            if current is not None and pick != current:
                state['preempt'] -= 1
            return pick

        sched = Sched(choose)
        m.sched = sched
        for c in clients:
            sched.spawn(c, client_script(c))
        sched.spawn('env', env_script)
        try:
            outcome = sched.run()
        except M.Deadlock as exc:
            add(Finding('C11', f'deadlock: {exc}', {'events': list(events), 'key': 'C11:deadlock'}))
            return None
        except M.CppThrow as exc:
            who = sched.current or '?'
            add(Finding('C11', f'a C++ exception ({exc.type_name}) escapes on thread {who} '
                               f'({"the dispatcher" if who == "env" else "a client"}): the process terminates, nobody '
                               'receives out-events any more',
                        {'events': list(events), 'key': f'C11:exception-escapes:{exc.type_name}',
                         'exception': exc.type_name}))
            return None
        finally:
            m.sched = None
            for f in local:
                f.witness['schedule'] = [t for t, _e in sched.schedule]
                f.witness['cycles'], f.witness['n_out'], f.witness['variant'] = cycles, n_out, variant
        sched_names = [t for t, _e in sched.schedule]
        if outcome == 'deadlock':
            add(Finding('C11', 'deadlock: every remaining thread is blocked',
                        {'events': list(events), 'key': 'C11:deadlock', 'schedule': sched_names,
                         'cycles': cycles, 'n_out': n_out, 'variant': variant}))
        counter['n'] += 1
        if samples_out is not None and outcome == 'ok' and counter['n'] % sample_every == 1 and len(samples_out) < 12:
            samples_out.append({'schedule': sched_names, 'events': [list(e) for e in events],
                                'bad_delivery': any('delivered to' in f.what for f in local)})
        for race in sorted(set(m.hb_races)):
            add(Finding('C11', f'data race: {race}', {'events': list(events), 'schedule': sched_names,
                                                     'cycles': cycles, 'n_out': n_out, 'variant': variant,
                                                     'key': 'C11:race:' + race.split(':')[0]}))
        if not m.hb_races:
            for race in m.races():
                # no common lock, yet ordered by other synchronisation in this schedule: the atomic-block reduction
                # is not justified for this location (reported when no schedule shows the accesses concurrent)
                discipline.add(race)
        if m.lock_then_block:
            add(Finding('C11', 'a thread waits for the dispatcher while holding the selector mutex',
                        {'events': list(events), 'schedule': sched_names, 'cycles': cycles, 'n_out': n_out, 'variant': variant,
                         'key': 'C11:lock-then-dispatcher'}))
        return None

    explore.explore(scenario, stats, max_paths=max_schedules)
    if discipline and not any(str(f.witness.get('key', '')).startswith('C11:race') for f in findings):
        raise explore.Inconclusive('lock discipline not met although no schedule within the bound shows a race: '
                                   + '; '.join(sorted(discipline))[:300])
    return findings


def _delivery_key(m: 'TMachine', holder: str, got: List[str]) -> str:
    """identity of a delivery finding: which thread last wrote the selection before the out-event was raised
    (not which client or program)"""
    to = 'nobody' if not got else 'another-client'
    writer = next((a[1] for a in reversed(m.accesses) if a[0].startswith('m_clientSelect') and a[2]), None)
    if writer is not None and writer != holder:
        return f'C11:selection-of-granted-client-overwritten-by-other-thread:{to}'
    return f'C11:granted-client-misses-out-event:{to}'


def _log_holders(m: 'TMachine', w: World, prt: fam.Prt) -> List['M.StructV']:
    """every ILog value reachable from the selector (m_log and its subLog copies)"""
    out = []
    sel: M.StructV = m.load(w.shell_field('m_pp' + cap(prt.name)))
    todo = [m.load(sel.fields['m_log'])]
    while todo:
        sv = todo.pop()
        if not isinstance(sv, M.StructV):
            continue
        out.append(sv)
        sub = sv.fields.get('subLog')
        if sub is not None:
            todo.append(m.load(sub))
    return out


def mutex_wrapped_protocol(prog: Program, ports_cfg, stats) -> List[Finding]:
    """Sequential protocol of MutexWrapped (from its own AST): the mutex is held exactly while the
    pointer handed out lives — locked after operator(), a second operator() on the same thread cannot
    proceed, free again after reset() and after scope exit."""
    info = prog.info
    model: fam.Model = info['model']
    mc = ports_cfg.multiclient
    if mc is None:
        return []
    prt = next(p for p in model.ports if p.name == mc.port_name)
    findings: List[Finding] = []

    def scenario(oracle):
        from . import intrinsics
        w = World(prog, oracle, info['case'].origin, services_for(info['case'].origin))
        m = w.m
        w.construct_shell(True)
        sel: M.StructV = m.load(w.shell_field('m_pp' + cap(prt.name)))
        mw_loc = sel.fields['m_clientSelect']
        mw: M.StructV = m.load(mw_loc)
        mutex: M.MutexV = m.load(mw.fields['m_mutex'])
        fn = prog.method(mw.rec, 'operator()', 0)
        if fn is None:
            raise Unsupported('MutexWrapped::operator() not found')

        def acquire():
            return intrinsics.call_user(m, fn, mw_loc, [])

        # (1) scope exit releases
        m.push_frame('Dzn', None, 'scope-test')
        p = acquire()
        loc = m.new_local(p, 'lockAndData')
        if not isinstance(p, M.UniquePtrV) or p.ptr is not mw.fields['m_protectee']:
            findings.append(Finding('C11', 'MutexWrapped::operator() does not hand out the protected value', {'mw': True}))
        if not mutex.locked:
            findings.append(Finding('C11', 'the mutex is not held while the pointer is alive', {'mw': True}))
        # (2) exclusive: ANOTHER thread's acquisition cannot proceed while the first pointer lives
        m._tid = 'other'
        try:
            q = acquire()
            findings.append(Finding('C11', 'a second thread is handed a pointer to the protected value while the first '
                                           'one is alive (no mutual exclusion)', {'mw': True}))
            m.new_local(q, 'second')
        except M.Deadlock:
            pass
        finally:
            m._tid = 'main'
        m.pop_frame()
        if mutex.locked:
            findings.append(Finding('C11', 'the lock is not released when the pointer goes out of scope', {'mw': True}))
        # (3) explicit reset releases
        m.push_frame('Dzn', None, 'reset-test')
        p = acquire()
        m.new_local(p, 'lockAndData')
        if isinstance(p, M.UniquePtrV) and p.ptr is not None:
            m.call_deleter(p)                     # what unique_ptr::reset() does
        if mutex.locked:
            findings.append(Finding('C11', 'the lock is not released on explicit reset()', {'mw': True}))
        m.pop_frame()
        if mutex.locked:
            findings.append(Finding('C11', 'the lock is held after reset() and scope exit', {'mw': True}))
        return None

    explore.explore(scenario, stats)
    return findings
