"""Scenario building blocks for ShellSem: instantiate the generated shell inside the abstract
machine, bind instrumented handlers on both sides of every exposed port, invoke slots with fresh
symbolic arguments and collect what the handlers observed."""
from dataclasses import dataclass, field
from typing import Any, Dict, List, Optional, Tuple

import z3

from .. import family as fam
from . import machine as M
from .program import Program, Unsupported

BlobSort = z3.DeclareSort('Blob')
StrSort = z3.DeclareSort('StrS')
SORTS = {'TInt': z3.IntSort(), 'TBlob': BlobSort, 'TStr': StrSort}
RES_VALUES = {name: i for i, name in enumerate(fam.RES_FIELDS)}


def cap(name: str) -> str:
    return name[0].upper() + name[1:]


@dataclass
class Call:
    side: str                    # 'comp' | 'user' | 'client:<id>'
    port: str
    event: str
    args: List[Any]              # z3 terms observed for in-formals (value at call time)
    wrote: Dict[int, Any]        # formal index -> z3 term written to out/inout actuals
    reply: Any                   # z3 term returned (None for void)
    in_dispatcher: bool
    queue_len: int


class World:
    def __init__(self, prog: Program, oracle, origin, user_services: Dict[str, Any], machine_cls=None):
        self.prog = prog
        self.m = (machine_cls or M.Machine)(prog, oracle)
        self.oracle = oracle
        self.info = prog.info
        self.model: fam.Model = prog.info['model']
        self.calls: List[Call] = []
        self.counter = 0
        self.origin = origin
        self.m.push_frame('Vf', None, 'scenario')
        # the user's locator
        self.user_pump = M.Loc(M.PumpV('user-pump'), 'user-pump')
        self.user_runtime = M.Loc(M.RuntimeV('user-runtime'), 'user-runtime')
        self.other_service = M.Loc(M.StructV('OtherService', None), 'other-service')
        loc = M.LocatorV()
        for key, target in (('dzn::pump', self.user_pump), ('dzn::runtime', self.user_runtime),
                            ('OtherService', self.other_service)):
            present = user_services.get(key, False)
            if present is not False:
                loc.services[key] = (present, target)
        self.user_locator = M.Loc(loc, 'user-locator')
        self.user_locator_snapshot = dict(loc.services)
        self.shell: Optional[M.Loc] = None
        self.log_obj = None

    # ---- construction ---------------------------------------------------------------------------------
    def fresh(self, sort, name: str):
        self.counter += 1
        return z3.Const(f'{name}#{self.counter}', sort)

    def construct_shell(self, mc: bool, instance_name: str = 'inst'):
        rec = self.prog.record_for_type(self.info['shell'])
        if rec is None:
            raise Unsupported('shell record not found in the AST')
        args: List[Any] = [self.user_locator]
        if mc:
            ilog = self.prog.record_for_type('ILog')
            self.log_obj = M.Loc(self.m.construct_record(ilog, 'ILog', None, []), 'mc-log')
            args.append(self.log_obj)
        args.append(M.Loc(instance_name, 'instance-name'))
        sv = self.m.construct_record(rec, self.info['shell'], None, args, 'shell')
        self.shell = M.Loc(sv, 'shell')
        return self.shell

    def shell_field(self, name: str) -> M.Loc:
        sv: M.StructV = self.shell.v
        if name not in sv.fields:
            raise Unsupported(f'shell has no member {name}')
        return sv.fields[name]

    def encapsulee(self) -> M.StructV:
        return self.m.load(self.shell_field('m_encapsulee'))

    def dispatcher(self) -> M.PumpV:
        return self.m.load(self.shell_field('m_dispatcher'))

    def call_method(self, name: str, args: List[Any]):
        from . import intrinsics
        rec = self.shell.v.rec
        fn = self.prog.method(rec, name, len(args))
        if fn is None:
            raise Unsupported(f'shell method {name}/{len(args)} not found')
        return intrinsics.call_user(self.m, fn, self.shell, args)

    def has_method(self, name: str) -> bool:
        return bool(self.shell.v.rec.methods.get(name))

    def accessor(self, prt: fam.Prt, client: Optional[str] = None) -> Tuple[M.Loc, str]:
        """(location of the port object handed out, declared strict-port type)"""
        prefix = 'Provides' if prt.direction == 'provides' else 'Requires'
        if client is not None:
            name = f'{prefix}MultiClient{cap(prt.name)}'
            # the identifier lives in the caller's frame, which is gone once the accessor returned
            self.m.push_frame('Vf', None, f'caller:accessor:{client}')
            try:
                res = self.call_method(name, [self.m.new_local(client, 'client-id')])
            finally:
                self.m.pop_frame()
        else:
            name = f'{prefix}{cap(prt.name)}'
            res = self.call_method(name, [])
        fn = self.prog.method(self.shell.v.rec, name, None)
        if not isinstance(res, M.StructV) or 'port' not in res.fields:
            raise Unsupported(f'accessor {name} did not return a strict port')
        return res.fields['port'], fn.ret_type

    # ---- slots ------------------------------------------------------------------------------------------
    def slot(self, port_loc: M.Loc, direction: str, event: str) -> M.Loc:
        port = self.m.load(port_loc)
        return self.m.load(port.fields[direction]).fields[event]

    def itf_of(self, prt: fam.Prt) -> fam.Itf:
        return next(i for i in self.model.itfs if i.name == prt.itf)

    def handler(self, side: str, prt: fam.Prt, ev: fam.Ev, reply_term=None) -> M.External:
        def impl(machine: M.Machine, args: List[Any]):
            if len(args) != len(ev.formals):
                raise Unsupported(f'handler {side}.{prt.name}.{ev.name}: {len(args)} args')
            seen, wrote = [], {}
            for i, (fname, fdir, ftype) in enumerate(ev.formals):
                a = args[i]
                if fdir == 'in' or ev.direction == 'out':
                    v = machine.load(a) if isinstance(a, M.Loc) else a
                    seen.append(v.term if isinstance(v, M.Sym) else v)
                else:
                    if not isinstance(a, M.Loc):
                        raise Unsupported('out/inout formal passed by value')
                    if fdir == 'inout':
                        v = machine.load(a)
                        seen.append(v.term if isinstance(v, M.Sym) else v)
                    else:
                        seen.append(None)
                    w = self.fresh(SORTS[ftype], f'w_{side}_{prt.name}_{ev.name}_{fname}')
                    machine.store(a, M.Sym(w))
                    wrote[i] = w
            reply = None
            if ev.reply != 'void':
                reply = reply_term if reply_term is not None else \
                    self.fresh(z3.IntSort(), f'r_{side}_{prt.name}_{ev.name}')
                if self.oracle is not None and reply_term is None:
                    self.oracle.assume(z3.And(reply >= 0, reply <= 2))       # enum Res has three values
            pump = self.dispatcher()
            self.calls.append(Call(side, prt.name, ev.name, seen, wrote, reply,
                                   pump.in_dispatcher > 0, len(pump.queue)))
            return M.Sym(reply) if reply is not None else None
        return M.External(f'{side}.{prt.name}.{ev.name}', impl)

    def comp_slot(self, prt: fam.Prt, ev: fam.Ev) -> M.Loc:
        """where the component's behaviour for an event it implements is plugged in"""
        return self.encapsulee().fields[f'hook_{prt.name}_{ev.direction}_{ev.name}']

    def bind(self, slot_loc: M.Loc, ext: M.External):
        self.m.store(slot_loc, M.FuncV('external', ext))

    def invoke(self, slot_loc: M.Loc, ev: fam.Ev, tag: str):
        """Call a slot with fresh symbolic arguments held in a caller frame that dies afterwards.
        Returns (passed terms, arg locations, reply value)."""
        self.m.push_frame('Vf', None, f'caller:{tag}')
        passed, locs = [], []
        try:
            args = []
            for fname, fdir, ftype in ev.formals:
                t = self.fresh(SORTS[ftype], f'a_{tag}_{fname}')
                loc = self.m.new_local(M.Sym(t), f'actual:{fname}')
                passed.append(t)
                locs.append(loc)
                args.append(loc)
            fv = self.m.load(slot_loc)
            if not isinstance(fv, M.FuncV):
                raise Unsupported('slot is not a std::function')
            ret = self.m.call_funcv(fv, args, tag)
            after = [self.m.load(l) for l in locs]
            return passed, after, ret
        finally:
            self.m.pop_frame()       # the caller's frame (its actuals) is gone now

    def drain(self) -> int:
        """Let the dispatcher run everything that was posted."""
        pump = self.dispatcher()
        n = 0
        while pump.queue:
            fv = pump.queue.pop(0)
            pump.in_dispatcher += 1
            try:
                self.m.call_funcv(fv, [], 'dispatcher')
            finally:
                pump.in_dispatcher -= 1
                pump.executed += 1
            n += 1
            if n > 1000:
                raise Unsupported('dispatcher does not come to rest')
        return n
