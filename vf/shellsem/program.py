"""Program database built from clang's JSON AST dumps: record layouts, function bodies, enum
constants — everything the abstract machine looks up by name."""
import re
from dataclasses import dataclass, field
from typing import Dict, List, Optional, Tuple


class Unsupported(Exception):
    """Construct outside the interpreted subset => the program is *inconclusive* (fail closed)."""


@dataclass
class Field:
    name: str
    type: str
    init: Optional[dict]          # in-class initialiser expression node
    anon_record: Optional['Record'] = None


@dataclass
class Func:
    name: str
    node: dict
    params: List[dict]
    body: Optional[dict]
    record: Optional[str]         # simple name of the owning record ('' for free functions)
    run: str
    is_static: bool = False
    ctor_inits: List[dict] = field(default_factory=list)
    ret_type: str = ''


@dataclass
class Record:
    name: str
    qual: str
    node: dict
    run: str
    fields: List[Field] = field(default_factory=list)
    bases: List[str] = field(default_factory=list)
    methods: Dict[str, List[Func]] = field(default_factory=dict)
    is_lambda: bool = False


def norm_type(t: str) -> str:
    """'const ::N::VfIA &' -> 'N::VfIA'; template arguments removed."""
    t = t.replace('struct ', '').replace('class ', '')
    # drop template arguments (balanced)
    out, depth = '', 0
    for ch in t:
        if ch == '<':
            depth += 1
        elif ch == '>':
            depth -= 1
        elif depth == 0:
            out += ch
    t = out
    t = re.sub(r'\bconst\b|\bvolatile\b', '', t)
    t = t.replace('&', '').replace('*', '').replace(' ', '')
    while t.startswith('::'):
        t = t[2:]
    return t


def _squash(t: str) -> str:
    t = t.replace('struct ', '').replace('class ', '').replace(' ', '')
    t = re.sub(r'(?<![A-Za-z0-9_:])::', '', t)
    return t


def _template_args(t: str) -> str:
    """text between the outermost <...> of the last component of a type spelling"""
    depth, start = 0, None
    for i, ch in enumerate(t):
        if ch == '<':
            if depth == 0:
                start = i + 1
            depth += 1
        elif ch == '>':
            depth -= 1
            if depth == 0 and start is not None:
                last = (start, i)
    try:
        return t[last[0]:last[1]]
    except UnboundLocalError:
        return ''


class Program:
    def __init__(self, asts: Dict[str, List[dict]], info: Dict):
        self.info = info
        self.records: Dict[str, Record] = {}
        self.ambiguous = set()
        self.funcs_by_id: Dict[Tuple[str, str], Func] = {}
        self.free_funcs: Dict[str, List[Func]] = {}
        self.enum_consts: Dict[Tuple[str, str], Tuple[str, int]] = {}   # (run,id) -> (enum, ordinal)
        self.record_by_id: Dict[Tuple[str, str], Record] = {}
        self.var_decls: Dict[Tuple[str, str], dict] = {}
        self.spec_records: Dict[str, List[Tuple[str, Record]]] = {}   # template name -> [(argument text, record)]
        for run, objs in asts.items():
            for obj in objs:
                self._walk(obj, run, [])
        # attach out-of-line method definitions (shell .cc) to their records
        for (run, _fid), fn in list(self.funcs_by_id.items()):
            parent = fn.node.get('parentDeclContextId')
            if parent and (run, parent) in self.record_by_id:
                rec = self.record_by_id[(run, parent)]
                fn.record = rec.name
                if fn.body is not None:
                    lst = rec.methods.setdefault(fn.name, [])
                    lst[:] = [f for f in lst if f.body is not None and f is not fn] + [fn]

    # ---- walking -------------------------------------------------------------------------------
    def _register_record(self, rec: Record):
        parts = rec.qual.split('::')
        for i in range(len(parts)):
            key = '::'.join(parts[i:])
            if key in self.records and self.records[key] is not rec:
                old = self.records[key]
                # prefer a complete definition with fields / a template specialisation
                if old.qual == rec.qual:
                    if len(rec.fields) + len(rec.methods) >= len(old.fields) + len(old.methods):
                        self.records[key] = rec
                    continue
                if i > 0:
                    self.ambiguous.add(key)
                    continue
            self.records[key] = rec

    def _walk(self, node: dict, run: str, scope: List[str]):
        kind = node.get('kind')
        if kind == 'NamespaceDecl':
            for c in node.get('inner', []):
                self._walk(c, run, scope + [node.get('name', '')])
        elif kind in ('CXXRecordDecl', 'ClassTemplateSpecializationDecl'):
            self._record(node, run, scope)
        elif kind == 'ClassTemplateDecl':
            specs = [c for c in node.get('inner', []) if c.get('kind') == 'ClassTemplateSpecializationDecl'
                     and c.get('completeDefinition')]
            if specs:
                for sp in specs:
                    self._record(sp, run, scope)
            else:
                for c in node.get('inner', []):
                    if c.get('kind') == 'CXXRecordDecl':
                        self._record(c, run, scope)
        elif kind == 'FunctionTemplateDecl':
            for c in node.get('inner', []):
                if c.get('kind') == 'FunctionDecl' and any(x.get('kind') == 'CompoundStmt'
                                                           for x in c.get('inner', [])):
                    # keep only instantiations (they have no dependent types)
                    if 'DZN_PORT' in c.get('type', {}).get('qualType', '') or \
                            'STR_TYPE' in c.get('type', {}).get('qualType', ''):
                        continue
                    self._function(c, run, '')
        elif kind in ('FunctionDecl', 'CXXMethodDecl', 'CXXConstructorDecl', 'CXXDestructorDecl',
                      'CXXConversionDecl'):
            self._function(node, run, None)
        elif kind == 'EnumDecl':
            self._enum(node, run)
        elif kind == 'VarDecl':
            self.var_decls[(run, node['id'])] = node            # namespace-scope variable

    def _enum(self, node: dict, run: str):
        ordinal = 0
        for c in node.get('inner', []):
            if c.get('kind') == 'EnumConstantDecl':
                self.enum_consts[(run, c['id'])] = (node.get('name', ''), ordinal, c.get('name'))
                ordinal += 1

    def _function(self, node: dict, run: str, record: Optional[str]) -> Func:
        inner = node.get('inner', [])
        params = [c for c in inner if c.get('kind') == 'ParmVarDecl']
        body = next((c for c in inner if c.get('kind') == 'CompoundStmt'), None)
        inits = [c for c in inner if c.get('kind') == 'CXXCtorInitializer']
        qt = node.get('type', {}).get('qualType', '')
        fn = Func(name=node.get('name', ''), node=node, params=params, body=body, record=record,
                  run=run, is_static=node.get('storageClass') == 'static', ctor_inits=inits,
                  ret_type=qt.split('(')[0].strip())
        self.funcs_by_id[(run, node['id'])] = fn
        if record == '' and body is not None:
            self.free_funcs.setdefault(fn.name, []).append(fn)
        return fn

    def _record(self, node: dict, run: str, scope: List[str]) -> Optional[Record]:
        name = node.get('name', '')
        qual = '::'.join([s for s in scope if s] + [name]) if name else ''
        rec = Record(name=name, qual=qual, node=node, run=run)
        self.record_by_id[(run, node['id'])] = rec
        for b in node.get('bases', []):
            rec.bases.append(norm_type(b.get('type', {}).get('qualType', '')))
        last_anon = None
        for c in node.get('inner', []):
            k = c.get('kind')
            if k == 'CXXRecordDecl':
                if c.get('isImplicit'):
                    continue
                sub = self._record(c, run, scope + [name] if name else scope)
                if sub is not None and not c.get('name'):
                    last_anon = sub
            elif k == 'FieldDecl':
                ftype = c.get('type', {}).get('desugaredQualType') or c.get('type', {}).get('qualType', '')
                init = next((x for x in c.get('inner', []) if 'kind' in x and x['kind'] != 'FullComment'), None)
                fld = Field(c.get('name', ''), ftype, init)
                if 'unnamed' in ftype or 'anonymous' in ftype:
                    fld.anon_record = last_anon
                rec.fields.append(fld)
            elif k in ('CXXMethodDecl', 'CXXConstructorDecl', 'CXXDestructorDecl', 'CXXConversionDecl'):
                fn = self._function(c, run, name)
                rec.methods.setdefault(fn.name, []).append(fn)
            elif k == 'FunctionTemplateDecl':
                for x in c.get('inner', []):
                    if x.get('kind') in ('CXXMethodDecl',) and any(y.get('kind') == 'CompoundStmt'
                                                                   for y in x.get('inner', [])):
                        fn = self._function(x, run, name)
                        rec.methods.setdefault(fn.name, []).append(fn)
            elif k == 'EnumDecl':
                self._enum(c, run)
            elif k == 'VarDecl':
                self.var_decls[(run, c['id'])] = c              # static data member
        if not node.get('completeDefinition', True) and not rec.fields and not rec.methods:
            return rec
        if name:
            self._register_record(rec)
            if node.get('kind') == 'ClassTemplateSpecializationDecl':
                targs = [_squash(c.get('type', {}).get('qualType', '')) for c in node.get('inner', [])
                         if c.get('kind') == 'TemplateArgument' and 'type' in c]
                if targs and (rec.fields or rec.methods):
                    self.spec_records.setdefault(name, []).append((','.join(targs), rec))
        return rec

    # ---- lookups -----------------------------------------------------------------------------------
    def record_for_type(self, qual_type: str) -> Optional[Record]:
        key = norm_type(qual_type)
        if key.startswith('std::'):
            return None
        # several specialisations of one class template (e.g. MutexWrapped<optional<..>> and MutexWrapped<map<..>>):
        # pick the one whose template arguments match the type's spelling
        base = key.split('::')[-1]
        specs = self.spec_records.get(base, [])
        if len({id(r) for _a, r in specs}) > 1 and '<' in qual_type:
            want = _squash(_template_args(qual_type))
            exact = [r for a, r in specs if a == want]
            if not exact:
                head = want.split('<')[0]
                exact = [r for a, r in specs if a.split('<')[0] == head]
            if exact and len({id(r) for r in exact}) == 1:
                return exact[-1]
            if exact:
                best = [r for r in exact if r.fields]
                if best:
                    return best[-1]
        parts = key.split('::')
        for i in range(len(parts)):
            k = '::'.join(parts[i:])
            if k in self.records and (k not in self.ambiguous or i == 0):
                return self.records[k]
        return None

    def method(self, rec: Record, name: str, nargs: Optional[int] = None) -> Optional[Func]:
        cands = [f for f in rec.methods.get(name, []) if f.body is not None]
        if nargs is not None:
            exact = [f for f in cands if len(f.params) == nargs]
            if exact:
                cands = exact
            else:
                cands = [f for f in cands if len(f.params) >= nargs]
        if cands:
            return cands[-1]
        for b in rec.bases:
            brec = self.record_for_type(b)
            if brec is not None:
                got = self.method(brec, name, nargs)
                if got is not None:
                    return got
        return None
