"""Call dispatch for the ShellSem machine: user functions are interpreted from their AST, library and
Dezyne-runtime calls are intrinsics keyed by the callee name clang resolved and the run-time kind
of the object.  Unknown callee => Unsupported (inconclusive)."""
from typing import Any, List

import z3

from .program import Unsupported, norm_type
from . import machine as M


def _val(m: 'M.Machine', a):
    return m.load(a) if isinstance(a, M.Loc) else a


def _service_key(type_str: str) -> str:
    return norm_type(type_str)


def dispatch(m: 'M.Machine', node: dict, want_lvalue: bool):
    kind = node.get('kind')
    inner = [c for c in node.get('inner', []) if 'kind' in c]
    if kind == 'CXXMemberCallExpr':
        callee = m.rv(inner[0])
        if not isinstance(callee, M.BoundMethod):
            raise Unsupported('member call without bound method')
        arg_nodes = inner[1:]
        return member_call(m, node, callee.obj, callee.name, arg_nodes, want_lvalue)
    if kind == 'CXXOperatorCallExpr':
        callee = m.rv(inner[0])
        if not isinstance(callee, M.FuncRef):
            raise Unsupported('operator call without callee')
        return operator_call(m, node, callee.name, inner[1:], want_lvalue)
    # plain CallExpr
    callee = m.rv(inner[0])
    if isinstance(callee, M.BoundMethod):
        return member_call(m, node, callee.obj, callee.name, inner[1:], want_lvalue)
    if not isinstance(callee, M.FuncRef):
        raise Unsupported(f'call through {type(callee).__name__}')
    return free_call(m, node, callee, inner[1:], want_lvalue)


# ---- free functions --------------------------------------------------------------------------------------

def free_call(m: 'M.Machine', node: dict, callee: 'M.FuncRef', arg_nodes: List[dict], want_lvalue: bool):
    name = callee.name
    if name in ('move', 'forward'):
        return m.lv(arg_nodes[0]) if arg_nodes[0].get('valueCategory') != 'prvalue' else m.rv(arg_nodes[0])
    if name in ('ref', 'cref'):
        a = m.lv(arg_nodes[0])
        inner = m.load(a)
        if isinstance(inner, M.RefWrapV):
            return inner
        return M.RefWrapV(a)
    if name == 'shell':
        pump_loc = m.lv(arg_nodes[0])
        pump = m.load(pump_loc)
        if not isinstance(pump, M.PumpV):
            raise Unsupported('dzn::shell without a pump')
        fv = m.to_funcv(m.args_of([arg_nodes[1]])[0])
        return m.do_shell(pump, fv)
    if name == 'connect':
        m.args_of(arg_nodes)
        m.trace.append(('connect',))
        return None
    if name == 'CapitalizeFirstChar':
        s = _val(m, m.args_of(arg_nodes)[0])
        return s[:1].upper() + s[1:]
    ref_kind = callee.node.get('referencedDecl', {}).get('kind')
    if ref_kind == 'CXXMethodDecl':
        # static member function called without an object (e.g. FacilitiesCheck in a ctor initialiser)
        this_loc = m.frame().this_ptr
        rec = this_loc.v.rec if this_loc is not None and isinstance(this_loc.v, M.StructV) else None
        if rec is None:
            raise Unsupported(f'static call {name} outside a record')
        args = m.args_of(arg_nodes)
        fn = m.prog.method(rec, name, len(args))
        if fn is None:
            raise Unsupported(f'no body for static {rec.name}::{name}')
        return call_user(m, fn, None, args)
    fns = m.prog.free_funcs.get(name)
    if fns:
        args = m.args_of(arg_nodes)
        fn = [f for f in fns if len(f.params) == len(args)]
        want = norm_type(node.get('type', {}).get('qualType', ''))
        exact = [f for f in fn if norm_type(f.ret_type) == want]
        if exact:
            fn = exact
        if not fn:
            raise Unsupported(f'no instantiation of {name}')
        return m.call_function(fn[-1], None, args)
    raise Unsupported(f'free function {name}')


# ---- member functions ----------------------------------------------------------------------------------------

def member_call(m: 'M.Machine', node: dict, obj_loc: 'M.Loc', name: str, arg_nodes: List[dict],
                want_lvalue: bool):
    obj = m.load(obj_loc)
    rtype = node.get('type', {}).get('qualType', '')
    if isinstance(obj, M.StructV):
        if obj.rec is None:
            raise Unsupported(f'method {name} on layout-less struct')
        args = m.args_of(arg_nodes)
        fn = m.prog.method(obj.rec, name, len(args))
        if fn is None:
            raise Unsupported(f'no body for {obj.rec.name}::{name}/{len(args)}')
        return call_user(m, fn, obj_loc, args)
    if isinstance(obj, M.LocatorV):
        return locator_call(m, node, obj_loc, obj, name, arg_nodes)
    if isinstance(obj, M.FuncV):
        if name == 'operator bool':
            t = m.func_nonempty(obj)
            return t if isinstance(t, bool) else M.Sym(t)
        raise Unsupported(f'std::function::{name}')
    if isinstance(obj, str):
        if name == 'empty':
            return len(obj) == 0
        if name in ('size', 'length'):
            return len(obj)
        if name in ('assign', 'append', 'operator+=', 'push_back'):
            a = _val(m, m.args_of(arg_nodes)[0])
            if not isinstance(a, str):
                raise Unsupported(f'std::string::{name} with {type(a).__name__}')
            m.note_access(obj_loc, True)
            m.store(obj_loc, a if name == 'assign' else obj + a)
            return obj_loc
        if name == 'clear':
            m.note_access(obj_loc, True)
            m.store(obj_loc, '')
            return None
        if name == 'c_str':
            return obj
        raise Unsupported(f'std::string::{name}')
    if isinstance(obj, M.MapV):
        args = [_val(m, a) for a in m.args_of(arg_nodes)]
        if name == 'count':
            return 1 if args[0] in obj.items else 0
        if name == 'at':
            if args[0] not in obj.items:
                raise M.CppThrow('std::out_of_range', 'map::at')
            return obj.items[args[0]]
        if name == 'insert_or_assign':
            m.note_access(obj_loc, True)
            obj.items[args[0]] = M.Loc(args[1], f'map[{args[0]}]')
            return None
        if name == 'size':
            return len(obj.items)
        if name == 'find':
            if args[0] in obj.items:
                return M.MapIterV(obj, M.PairV(args[0], obj.items[args[0]]))
            return M.MapIterV(obj, None)
        if name in ('end', 'cend'):
            return M.MapIterV(obj, None)
        if name == 'empty':
            return len(obj.items) == 0
        raise Unsupported(f'std::map::{name}')
    if isinstance(obj, M.OptV):
        if name == 'has_value':
            return obj.has
        if name == 'value':
            if not obj.has:
                raise M.CppThrow('std::bad_optional_access', 'value')
            return M.Loc(obj.val, 'optional-value')
        if name == 'reset':
            m.note_access(obj_loc, True)
            obj.has, obj.val = False, None
            return None
        if name == 'operator bool':
            return obj.has
        raise Unsupported(f'std::optional::{name}')
    if isinstance(obj, M.RefWrapV):
        if name == 'get':
            return obj.target
        raise Unsupported(f'reference_wrapper::{name}')
    if isinstance(obj, M.VecV):
        if name == 'push_back':
            obj.items.append(_val(m, m.args_of(arg_nodes)[0]))
            return None
        if name == 'size':
            return len(obj.items)
        raise Unsupported(f'std::vector::{name}')
    if isinstance(obj, M.UniqueLockV):
        if name == 'owns_lock':
            return obj.owns
        if name == 'unlock':
            if not obj.owns:
                raise M.CppThrow('std::system_error', 'unlock of unowned lock')
            m.unlock(obj)
            m.note_access(obj_loc, True)        # the lock object's own state is written after the mutex is free
            return None
        if name in ('lock', 'lock_shared'):
            m.lock(obj)
            m.note_access(obj_loc, True)
            return None
        if name == 'try_lock':
            mv = m.load(obj.mutex)
            if m.can_take(mv, obj.shared, m.tid()):
                m.lock(obj, wait=False)
                return True
            return False
        if name == 'release':
            obj.owns = False
            return M.PtrV(obj.mutex)
        raise Unsupported(f'unique_lock::{name}')
    if isinstance(obj, M.MutexV):
        # direct use of the mutex (no RAII wrapper): a transient lock object stands for the thread's hold
        shared = name.endswith('_shared')
        if name in ('lock', 'lock_shared'):
            m.lock(M.UniqueLockV(obj_loc, False, shared))
            return None
        if name in ('unlock', 'unlock_shared'):
            m.unlock(M.UniqueLockV(obj_loc, True, shared))
            return None
        if name in ('try_lock', 'try_lock_shared'):
            if m.can_take(obj, shared, m.tid()):
                m.lock(M.UniqueLockV(obj_loc, False, shared), wait=False)
                return True
            return False
        raise Unsupported(f'mutex::{name}')
    if isinstance(obj, M.UniquePtrV):
        if name == 'reset':
            if obj.ptr is not None:
                m.call_deleter(obj)
            return None
        if name == 'get':
            return M.PtrV(obj.ptr)
        if name == 'operator bool':
            return obj.ptr is not None
        raise Unsupported(f'unique_ptr::{name}')
    if isinstance(obj, M.CppExc):
        if name == 'what':
            return obj.what
    if isinstance(obj, M.PumpV) and name == 'operator()':
        fv = m.to_funcv(m.args_of(arg_nodes)[0])
        m.do_post(obj, fv)
        return None
    raise Unsupported(f'method {name} on {type(obj).__name__}')


def call_user(m: 'M.Machine', fn, this_loc, args):
    """call an interpreted function; honour reference return types"""
    m.steps += 1
    if m.steps > m.max_steps:
        raise Unsupported('step budget exceeded')
    if fn.body is None:
        raise Unsupported(f'no body for {fn.name}')
    m.push_frame(fn.run, this_loc, f'{fn.record or ""}::{fn.name}')
    m.frame().ret_ref = fn.ret_type.rstrip().endswith('&')
    try:
        m.bind_params(fn, args)
        try:
            m.exec_stmt(fn.body)
        except M.ReturnEx as ret:
            return ret.value
        return None
    finally:
        m.pop_frame()


def locator_call(m, node, obj_loc, loc_obj: 'M.LocatorV', name: str, arg_nodes: List[dict]):
    rtype = node.get('type', {}).get('qualType', '')
    if name == 'clone':
        m.trace.append(('locator-clone',))
        return m.copy_value(loc_obj)
    if name == 'set':
        a = m.lv(arg_nodes[0])
        key = _service_key(arg_nodes[0].get('type', {}).get('qualType', ''))
        loc_obj.services[key] = (True, a)
        return obj_loc
    if name in ('get', 'try_get'):
        key = _service_key(rtype)
        present, target = loc_obj.services.get(key, (False, None))
        if name == 'try_get':
            return M.PtrV(target, nonnull=present)
        if not m.decide(present):
            raise M.CppThrow('std::runtime_error', f'locator: service {key} not found')
        return target
    raise Unsupported(f'dzn::locator::{name}')


# ---- operators ---------------------------------------------------------------------------------------------

def operator_call(m: 'M.Machine', node: dict, op: str, arg_nodes: List[dict], want_lvalue: bool):
    obj_node = arg_nodes[0]
    rest = arg_nodes[1:]
    if op == 'operator=':
        lhs = m.lv(obj_node)
        cur = m.load(lhs)
        rhs_node = rest[0]
        if isinstance(cur, M.FuncV) or M.type_kind(obj_node.get('type', {}).get('qualType', '')) == 'function':
            rhs = m.args_of([rhs_node])[0]
            m.store(lhs, m.to_funcv(rhs))
            return lhs
        if isinstance(cur, M.OptV):
            m.note_access(lhs, True)
            rhs = m.args_of([rhs_node])[0]
            if isinstance(rhs, M.Loc):
                inner = m.load(rhs)
                if isinstance(inner, M.OptV):
                    m.store(lhs, m.copy_value(inner))
                    return lhs
                # optional<reference_wrapper<T>> = T&  (binds a reference to the object)
                if 'reference_wrapper' in obj_node.get('type', {}).get('qualType', '') + \
                        (obj_node.get('type', {}).get('desugaredQualType') or ''):
                    cur.has, cur.val = True, (inner if isinstance(inner, M.RefWrapV) else M.RefWrapV(rhs))
                else:
                    cur.has, cur.val = True, m.copy_value(inner)
                return lhs
            cur.has, cur.val = True, rhs
            return lhs
        if isinstance(cur, M.UniqueLockV):       # move assignment: release what is held, take over the source
            rhs = m.args_of([rhs_node])[0]
            src = m.load(rhs) if isinstance(rhs, M.Loc) else rhs
            if not isinstance(src, M.UniqueLockV):
                raise Unsupported('unique_lock = ' + type(src).__name__)
            if cur.owns:
                m.unlock(cur)
            m.note_access(lhs, True)
            cur.mutex, cur.owns, cur.shared = src.mutex, src.owns, src.shared
            src.mutex, src.owns = None, False
            return lhs
        if isinstance(cur, str) and op == 'operator=':
            m.note_access(lhs, True)
        rhs = m.args_of([rhs_node])[0]
        v = m.copy_value(m.load(rhs)) if isinstance(rhs, M.Loc) else rhs
        m.store(lhs, v)
        return lhs
    if op == 'operator+=':
        lhs = m.lv(obj_node)
        cur = m.load(lhs)
        a = _val(m, m.args_of(rest)[0])
        if isinstance(cur, str) and isinstance(a, str):
            m.note_access(lhs, True)
            m.store(lhs, cur + a)
            return lhs
        raise Unsupported('operator+= on ' + type(cur).__name__)
    if op == 'operator()':
        obj_loc = m.lv(obj_node) if obj_node.get('valueCategory') != 'prvalue' else \
            M.Loc(m.rv(obj_node), 'callee')
        obj = m.load(obj_loc)
        if isinstance(obj, M.FuncV):
            args = m.args_of(rest)
            where = obj_node.get('name', '') or 'slot'
            return m.call_funcv(obj, args, where)
        if isinstance(obj, M.Closure):
            return m.call_funcv(M.FuncV('closure', obj), m.args_of(rest), 'lambda')
        if isinstance(obj, M.PumpV):
            fv = m.to_funcv(m.args_of(rest)[0])
            m.do_post(obj, fv)
            return None
        if isinstance(obj, M.StructV) and obj.rec is not None:
            args = m.args_of(rest)
            fn = m.prog.method(obj.rec, 'operator()', len(args))
            if fn is None:
                raise Unsupported(f'no operator() in {obj.rec.name}')
            return call_user(m, fn, obj_loc, args)
        raise Unsupported(f'operator() on {type(obj).__name__}')
    if op == 'operator->':
        obj = _val(m, m.lv(obj_node) if obj_node.get('valueCategory') != 'prvalue' else m.rv(obj_node))
        if isinstance(obj, M.UniquePtrV):
            return M.PtrV(obj.ptr)
        if isinstance(obj, M.OptV):
            return M.PtrV(M.Loc(obj.val, 'optional-value'))
        if isinstance(obj, M.MapIterV):
            if obj.entry is None:
                raise Unsupported('dereference of end()')
            return M.PtrV(M.Loc(obj.entry, 'map-entry'))
        raise Unsupported(f'operator-> on {type(obj).__name__}')
    if op == 'operator*':
        obj = _val(m, m.lv(obj_node) if obj_node.get('valueCategory') != 'prvalue' else m.rv(obj_node))
        if isinstance(obj, M.UniquePtrV):
            if obj.ptr is None:
                raise Unsupported('deref of empty unique_ptr')
            return obj.ptr
        if isinstance(obj, M.OptV):
            return M.Loc(obj.val, 'optional-value')
        raise Unsupported(f'operator* on {type(obj).__name__}')
    if op == 'operator+':
        a, b = [_val(m, x) for x in m.args_of(arg_nodes)]
        if isinstance(a, str) and isinstance(b, str):
            return a + b
        raise Unsupported('operator+ on non-strings')
    if op in ('operator==', 'operator!='):
        a, b = m.args_of(arg_nodes)
        res = m.equal(a, b)
        if op == 'operator!=':
            res = (not res) if isinstance(res, bool) else z3.Not(res)
        return res if isinstance(res, bool) else M.Sym(res)
    if op == 'operator[]':
        obj = _val(m, m.lv(obj_node))
        key = _val(m, m.args_of(rest)[0])
        if isinstance(obj, M.MapV):
            if key not in obj.items:
                raise Unsupported('map operator[] default insertion')
            return obj.items[key]
    raise Unsupported(f'operator {op}')
