"""Path exploration for ShellSem: a scenario (Python function driving a fresh Machine) is re-run
under decision prefixes until every feasible combination of symbolic branch outcomes has been
executed.  Feasibility is decided by z3 under the accumulated path condition."""
import time
from typing import Callable, List, Tuple

import z3


class Oracle:
    def __init__(self, prefix: List[bool], stats: dict, assumptions=()):
        self.prefix = list(prefix)
        self.decisions: List[bool] = []
        self.both: List[bool] = []
        self.pc: List = list(assumptions)
        self.stats = stats
        self.solver = z3.Solver()
        self.solver.set('timeout', 20000)
        for a in assumptions:
            self.solver.add(a)

    def _sat(self, cond) -> bool:
        t0 = time.perf_counter()
        self.solver.push()
        self.solver.add(cond)
        res = self.solver.check()
        self.solver.pop()
        self.stats['queries'] += 1
        self.stats['solver_s'] += time.perf_counter() - t0
        if res == z3.unknown:
            raise Inconclusive('solver returned unknown on a branch condition')
        return res == z3.sat

    def assume(self, cond):
        self.pc.append(cond)
        self.solver.add(cond)

    def decide(self, cond) -> bool:
        can_t = self._sat(cond)
        can_f = self._sat(z3.Not(cond))
        if not can_t and not can_f:
            raise Inconclusive('path condition became unsatisfiable')
        i = len(self.decisions)
        if i < len(self.prefix):
            choice = self.prefix[i]
            if (choice and not can_t) or (not choice and not can_f):
                raise Inconclusive('non-deterministic scenario: prefix no longer feasible')
        else:
            choice = can_t
        self.decisions.append(choice)
        self.both.append(can_t and can_f)
        self.pc.append(cond if choice else z3.Not(cond))
        self.solver.add(self.pc[-1])
        return choice

    def valid(self, claim) -> Tuple[bool, object]:
        """Is `claim` true for all values on this path?  Returns (valid, model-or-None)."""
        t0 = time.perf_counter()
        self.solver.push()
        self.solver.add(z3.Not(claim))
        res = self.solver.check()
        model = self.solver.model() if res == z3.sat else None
        self.solver.pop()
        self.stats['queries'] += 1
        self.stats['solver_s'] += time.perf_counter() - t0
        if res == z3.unknown:
            raise Inconclusive('solver returned unknown on a validity query')
        return res == z3.unsat, model

    def model(self):
        if self.solver.check() == z3.sat:
            return self.solver.model()
        return None


class Inconclusive(Exception):
    pass


def explore(scenario: Callable[[Oracle], object], stats: dict, max_paths: int = 256,
            assumptions=()) -> List[Tuple[List[bool], object]]:
    """Run `scenario(oracle)` on every feasible path; returns [(decisions, result)]."""
    results = []
    todo: List[List[bool]] = [[]]
    while todo:
        prefix = todo.pop()
        oracle = Oracle(prefix, stats, assumptions)
        res = scenario(oracle)
        results.append((list(oracle.decisions), res))
        stats['paths'] += 1
        for i in range(len(prefix), len(oracle.decisions)):
            if oracle.both[i]:
                alt = oracle.decisions[:i] + [not oracle.decisions[i]]
                todo.append(alt)
        if len(results) > max_paths:
            raise Inconclusive(f'more than {max_paths} paths')
    return results
