"""ShellSem front-end: regenerate the C++ of a family case from /repo/src, write it next to the mock
runtime / mock model header and obtain clang's typed AST (JSON) for exactly the code of interest.

Three clang runs per program (the filter is a substring of the qualified name):
  'Vf'  — the generated shell (file base name starts with Vf) and the mock model header types,
  'Dzn' — the generated support headers (namespace [...::]Dzn),
  'dzn' — the mock Dezyne runtime.
Node ids are only meaningful within one run; cross-run references are resolved by name.
"""
import json
import os
import subprocess
from typing import Dict, List, Tuple

from .. import realcode  # noqa: F401
from .. import family as fam
from . import modelhdr

from dznpy.adv_shell import Builder

VERIF = os.path.dirname(os.path.dirname(os.path.dirname(os.path.abspath(__file__))))
MOCK_INC = os.path.join(VERIF, 'cpp', 'mock_dzn')
CLANG = 'clang++-14'
FILTERS = ('Vf', 'Dzn', 'dzn')


class FrontendError(Exception):
    """clang rejected the program or produced something unusable (=> inconclusive, never a verdict)."""


def emit_program(case: fam.Case, ports_cfg, outdir: str) -> Dict:
    """Build with the real Builder and write all files; returns a description of the program."""
    m = fam.MODELS_ALL[case.model_i]
    res = Builder().build(fam.make_configuration(case, ports_cfg))
    os.makedirs(outdir, exist_ok=True)
    names = []
    for f in res.files:
        text = f.contents
        if f.filename.endswith('.hh'):
            # none of the generated headers has an include guard (observation recorded under C06);
            # the scratch copy gets one so that the translation unit can be parsed at all
            text = '#pragma once\n' + text
        with open(os.path.join(outdir, f.filename), 'w', encoding='utf-8') as fh:
            fh.write(text)
        names.append(f.filename)
    with open(os.path.join(outdir, m.comp + '.hh'), 'w', encoding='utf-8') as fh:
        fh.write(modelhdr.model_header(m))
    shell = names[0][:-3]
    return {'dir': outdir, 'shell': shell, 'header': names[0], 'source': names[1], 'files': names,
            'model': m, 'case': case,
            'support_ns': list(case.prefix or ()) + ['Dzn']}


def _decode_many(text: str) -> List[dict]:
    dec = json.JSONDecoder()
    out, i, n = [], 0, len(text)
    while i < n:
        while i < n and text[i].isspace():
            i += 1
        if i >= n:
            break
        obj, i = dec.raw_decode(text, i)
        out.append(obj)
    return out


def clang_ast(prog: Dict, flt: str) -> List[dict]:
    cmd = [CLANG, '-std=c++17', '-fsyntax-only', '-I', MOCK_INC, '-I', prog['dir'],
           '-Xclang', '-ast-dump=json', '-Xclang', f'-ast-dump-filter={flt}',
           os.path.join(prog['dir'], prog['source'])]
    proc = subprocess.run(cmd, capture_output=True, text=True, timeout=300, check=False)
    if proc.returncode != 0 or ' error: ' in proc.stderr:
        raise FrontendError(f'clang rejected {prog["source"]}: {proc.stderr[:600]}')
    try:
        return _decode_many(proc.stdout)
    except json.JSONDecodeError as exc:
        raise FrontendError(f'undecodable AST dump: {exc}') from exc


def load_asts(prog: Dict) -> Dict[str, List[dict]]:
    return {flt: clang_ast(prog, flt) for flt in FILTERS}
