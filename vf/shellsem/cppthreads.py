"""Threaded replay of a C11 schedule on the g++-compiled program.

Real std::threads run the client / environment scripts; every point at which the abstract machine can
switch threads is a *gate* in the compiled program too: the log sink callbacks, the dispatcher token
(mock pump built with VF_THREADED) and std::mutex::lock (the generated code is compiled with `mutex`
mapped to a gated wrapper).  The controlling thread grants the turns in the order of the machine's
schedule and waits until the running thread reaches its next gate or finishes, so exactly one thread
runs at a time and the compiled program follows the schedule deterministically.  With an empty schedule
the gates are open (free run; used under ThreadSanitizer for data-race findings).
"""
import os
import subprocess
from typing import Dict, List, Tuple

from .. import family as fam
from . import cppdriver as D
from .frontend import MOCK_INC
from .concrete import RES, _services_bool

from dznpy.adv_shell.common import FacilitiesOrigin


def driver_source(info: Dict, pc, cycles: int, n_out: int, clients: List[str], variant: int = 0) -> str:
    mc = pc.multiclient
    m: fam.Model = info['model']
    origin = info['case'].origin
    prt = next(p for p in m.ports if p.name == mc.port_name)
    itf = next(i for i in m.itfs if i.name == prt.itf)
    claim = next(e for e in itf.events if e.name == mc.claim_event_name)
    release = next(e for e in itf.events if e.name == mc.release_event_name)
    works = [e for e in itf.events if e.direction == 'in' and e.name not in (claim.name, release.name)]
    outs = [e for e in itf.events if e.direction == 'out']
    works = [works[variant % len(works)]] if works else []
    outs = [outs[variant % len(outs)]] if outs else []
    grant = RES[mc.claim_granting_reply_value.items[-1]]
    refuse = (grant + 1) % 3
    sc = D.Script(info, mc, origin == FacilitiesOrigin.CREATE, _services_bool(origin))
    itf_t = f'{D._ns(m)}{prt.itf}'
    sup = sc.sup

    def call(ev: fam.Ev, target: str) -> str:
        decl = ' '.join(f'{D.CPP[ft]} a{i}{{}};' for i, (_n, _d, ft) in enumerate(ev.formals))
        args = ', '.join(f'a{i}' for i in range(len(ev.formals)))
        return f'{{ {decl} {target}.{ev.direction}.{ev.name}({args}); }}'

    def call_ret(ev: fam.Ev, target: str) -> str:
        decl = ' '.join(f'{D.CPP[ft]} a{i}{{}};' for i, (_n, _d, ft) in enumerate(ev.formals))
        args = ', '.join(f'a{i}' for i in range(len(ev.formals)))
        return f'{decl} int r = static_cast<int>({target}.{ev.direction}.{ev.name}({args}));'

    L: List[str] = []
    sc.lines = L
    sc.prologue()
    L.append('    std::map<std::string, ' + itf_t + '*> ports;')
    for c in clients:
        L.append(f'    ports["{c}"] = &{sc.accessor_expr(prt, c)};')
    # handlers
    for ev in itf.events:
        params = D._sig_params(ev)
        if ev.direction == 'out':
            for c in clients:
                L.append(f'    ports["{c}"]->out.{ev.name} = [&]({params}) {{ vf_event("client:{c}.{ev.name}"); '
                         f'vf_deliver("{c}"); }};')
        else:
            body = [f'vf_event("comp.{ev.name}"); if (!dzn::vf_token_depth) VF_PRINT("HAZARD outside-dispatcher {ev.name}");']
            for fname, fdir, ftype in ev.formals:
                if fdir != 'in':
                    body.append(f'{fname} = {D.CPP[ftype]}{{}};')
            if ev.name == claim.name:
                body.append(f'if (!g_claimed) {{ g_claimed = true; return static_cast<{itf_t}::Res>({grant}); }} '
                            f'return static_cast<{itf_t}::Res>({refuse});')
            elif ev.name == release.name:
                body.append('g_claimed = false;')
            elif ev.reply != 'void':
                body.append(f'return static_cast<{itf_t}::Res>({refuse});')
            L.append(f'    g_enc(shell).hook_{prt.name}_in_{ev.name} = [&]({params}) {{ ' + ' '.join(body) + ' };')
    # all other ports: bind everything so that FinalConstruct passes
    for other in m.ports:
        if other.injected or other.name == prt.name:
            continue
        oitf = next(i for i in m.itfs if i.name == other.itf)
        for ev in oitf.events:
            user_binds = (other.direction == 'provides') == (ev.direction == 'out')
            tgt = f'{sc.accessor_expr(other, None)}.{ev.direction}.{ev.name}' if user_binds else \
                f'g_enc(shell).hook_{other.name}_{ev.direction}_{ev.name}'
            ret = '' if ev.reply == 'void' else f'return static_cast<{D._ns(m)}{other.itf}::Res>(0);'
            L.append(f'    {tgt} = [&]({D._sig_params(ev)}) {{ {ret} }};')
    L.append('    shell.FinalConstruct(nullptr);')
    L.append('    std::cout << "FINAL ok" << std::endl;')
    # scripts
    L.append('    auto client = [&](std::string c) {')
    L.append('        vf_enter(c); vf_gate("start");')
    L.append(f'        for (int cyc = 0; cyc < {cycles}; ++cyc) {{')
    L.append(f'            {call_ret(claim, "(*ports[c])")}')
    L.append(f'            if (r == {grant}) {{')
    L.append('                vf_set_granted(c, true); vf_event("granted");')
    for ev in works:
        L.append(f'                {call(ev, "(*ports[c])")}')
    L.append('                vf_set_granted(c, false); vf_event("releasing");')
    L.append(f'                {call(release, "(*ports[c])")}')
    L.append('            }')
    L.append('        }')
    L.append('        vf_finish();')
    L.append('    };')
    L.append('    auto env = [&]() {')
    L.append('        vf_enter("env"); vf_gate("start");')
    L.append(f'        for (int k = 0; k < {n_out}; ++k) {{')
    for ev in outs:
        L.append('            dzn::run_on_dispatcher(*g_pump, [&] {')
        L.append('                std::string holders = vf_holders(); size_t n0 = vf_delivered_count();')
        L.append(f'                vf_event("raise.{ev.name}");')
        L.append(f'                {call(ev, f"g_enc(shell).{prt.name}")}')
        L.append(f'                VF_PRINT("RAISE {ev.name} holders=[" << holders << "] got=[" << vf_delivered_since(n0) << "]");')
        L.append('            });')
    L.append('        }')
    L.append('        vf_finish();')
    L.append('    };')
    L.append('    std::vector<std::string> schedule;')
    L.append('    if (argc > 1) { std::stringstream ss(argv[1]); std::string item; while (std::getline(ss, item, \',\')) schedule.push_back(item); }')
    L.append('    if (schedule.empty()) vf_set_free();')
    L.append('    std::vector<std::thread> threads;')
    names = ', '.join(f'"{c}"' for c in clients)
    L.append(f'    std::vector<std::string> names = {{{names}}};')
    L.append('    for (auto& n : names) threads.emplace_back(client, n);')
    L.append('    threads.emplace_back(env);')
    L.append('    names.push_back("env");')
    L.append('    vf_run_schedule(schedule, names);')
    L.append('    for (auto& t : threads) t.join();')
    L.append('    std::cout << "DONE" << std::endl;')

    shell_t = f'{D._ns(m)}{info["shell"]}'
    enc_t = f'{D._ns(m)}{m.comp}'
    head = r'''
// generated by /verif ShellSem: threaded schedule replay
#define VF_THREADED 1
#include <iostream>
#include <memory>
#include <string>
#include <vector>
#include <map>
#include <set>
#include <thread>
#include <mutex>
#include <shared_mutex>
#include <condition_variable>
#include <chrono>
#include <algorithm>
#include <cctype>
#include <cwctype>
#include <regex>
#include <sstream>
#include <functional>
#include <optional>
#include <stdexcept>
#include <deque>
#include <typeinfo>
namespace dzn { extern thread_local int vf_token_depth; }
static thread_local std::string vf_self;
static thread_local int vf_held = 0;                  // std::mutex objects of the generated code held by this thread
#ifdef VF_TSAN
// ThreadSanitizer build: the gates must not synchronise the threads (otherwise every schedule would look
// race-free), so they are plain volatile flags in functions ThreadSanitizer does not instrument; nothing is
// printed or logged from the threads.
#include <sched.h>
#define VF_NOTSAN __attribute__((no_sanitize_thread)) __attribute__((noinline))
#define VF_PRINT(x) do { } while (0)
static volatile int vf_turn_i = -1; static volatile int vf_state_a[8]; static volatile bool vf_free = false;
static thread_local int vf_idx = -1;
static int vf_index_of(const std::string& n) { return n == "env" ? 7 : (n[1] - '0'); }
static void vf_enter(const std::string& n) { vf_self = n; vf_idx = vf_index_of(n); }
VF_NOTSAN void vf_gate(const char* tag)
{
    if (vf_idx < 0 || vf_free) return;
    int me = vf_idx;
    vf_state_a[me] = 1;
    while (vf_turn_i != me) sched_yield();
    vf_turn_i = -1;
}
VF_NOTSAN static void vf_finish() { vf_state_a[vf_idx] = 2; }
VF_NOTSAN static int vf_get_state(int i) { return vf_state_a[i]; }
VF_NOTSAN static void vf_grant(int i) { vf_state_a[i] = 0; asm volatile("" ::: "memory"); vf_turn_i = i; }
VF_NOTSAN static void vf_set_free() { vf_free = true; }
static void vf_event(const std::string&) {}
static void vf_set_granted(const std::string&, bool) {}
static std::string vf_holders() { return ""; }
static void vf_deliver(const std::string&) {}
static size_t vf_delivered_count() { return 0; }
static std::string vf_delivered_since(size_t) { return ""; }
static void vf_run_schedule(const std::vector<std::string>& schedule, const std::vector<std::string>& all)
{
    if (schedule.empty()) return;
    auto wait_parked = [&](int i, int ms) {
        auto t0 = std::chrono::steady_clock::now();
        while (vf_get_state(i) == 0)
        {
            if (std::chrono::steady_clock::now() - t0 > std::chrono::milliseconds(ms)) return false;
            std::this_thread::sleep_for(std::chrono::microseconds(50));
        }
        return true;
    };
    for (auto& t : all) { int i = vf_index_of(t); auto t0 = std::chrono::steady_clock::now();
        while (vf_get_state(i) != 1 && std::chrono::steady_clock::now() - t0 < std::chrono::seconds(30)) std::this_thread::sleep_for(std::chrono::microseconds(50)); }
    for (auto& t : schedule)
    {
        int i = vf_index_of(t);
        if (vf_get_state(i) == 2) continue;
        vf_grant(i);
        wait_parked(i, 30000);
    }
    for (int round = 0; round < 60; ++round)
    {
        bool all_done = true;
        for (auto& t : all)
        {
            int i = vf_index_of(t);
            if (vf_get_state(i) == 2) continue;
            all_done = false;
            if (vf_get_state(i) == 1) { vf_grant(i); wait_parked(i, 500); }
        }
        if (all_done) break;
    }
}
#else
#define VF_PRINT(x) do { std::cout << x << std::endl; } while (0)
static void vf_enter(const std::string& n) { vf_self = n; }
static void vf_set_free();
static std::mutex vf_m; static std::condition_variable vf_cv;
static std::string vf_turn; static bool vf_go = false; static bool vf_free = false;
static std::map<std::string, int> vf_state;            // 0 running, 1 at a gate, 2 finished
static std::map<std::string, bool> vf_granted; static std::vector<std::string> vf_delivered;
static std::mutex vf_log_m;
void vf_gate(const char* tag)
{
    if (vf_self.empty()) return;
    if (tag[0] == 'd' && vf_held > 0) { std::lock_guard<std::mutex> g(vf_log_m); std::cout << "HAZARD lock-then-dispatcher " << vf_self << std::endl; }
    if (vf_free) return;
    std::unique_lock<std::mutex> lk(vf_m);
    vf_state[vf_self] = 1; vf_cv.notify_all();
    vf_cv.wait(lk, [] { return vf_go && vf_turn == vf_self; });
    vf_go = false; vf_state[vf_self] = 0;
}
static void vf_finish() { std::unique_lock<std::mutex> lk(vf_m); vf_state[vf_self] = 2; vf_cv.notify_all(); }
static void vf_event(const std::string& tag) { std::lock_guard<std::mutex> g(vf_log_m); std::cout << "EVENT " << (vf_self.empty() ? "main" : vf_self) << " " << tag << std::endl; }
static void vf_set_granted(const std::string& c, bool v) { std::lock_guard<std::mutex> g(vf_log_m); vf_granted[c] = v; }
static std::string vf_holders() { std::lock_guard<std::mutex> g(vf_log_m); std::string s; for (auto& kv : vf_granted) if (kv.second) s += (s.empty() ? "" : ",") + kv.first; return s; }
static void vf_deliver(const std::string& c) { std::lock_guard<std::mutex> g(vf_log_m); vf_delivered.push_back(c); }
static size_t vf_delivered_count() { std::lock_guard<std::mutex> g(vf_log_m); return vf_delivered.size(); }
static std::string vf_delivered_since(size_t n) { std::lock_guard<std::mutex> g(vf_log_m); std::string s; for (size_t i = n; i < vf_delivered.size(); ++i) s += (s.empty() ? "" : ",") + vf_delivered[i]; return s; }
static void vf_run_schedule(const std::vector<std::string>& schedule, const std::vector<std::string>& all)
{
    using namespace std::chrono_literals;
    if (schedule.empty()) return;
    auto wait_parked = [&](const std::string& t, int ms = 30000) {
        std::unique_lock<std::mutex> lk(vf_m);
        return vf_cv.wait_for(lk, std::chrono::milliseconds(ms), [&] { return vf_state.count(t) && vf_state[t] != 0; });
    };
    for (auto& t : all) wait_parked(t);
    for (auto& t : schedule)
    {
        { std::unique_lock<std::mutex> lk(vf_m);
          if (vf_state[t] == 2) continue;
          vf_turn = t; vf_go = true; vf_state[t] = 0; vf_cv.notify_all(); }
        if (!wait_parked(t)) { std::cout << "STUCK " << t << std::endl; }
    }
    // let everything that is still parked run to completion
    for (int round = 0; round < 60; ++round)
    {
        bool all_done = true;
        for (auto& t : all)
        {
            std::unique_lock<std::mutex> lk(vf_m);
            if (vf_state[t] == 2) continue;
            all_done = false;
            if (vf_state[t] == 1) { vf_turn = t; vf_go = true; vf_state[t] = 0; vf_cv.notify_all(); lk.unlock(); wait_parked(t, 500); }
        }
        if (all_done) break;
    }
}
static void vf_set_free() { vf_free = true; }
#endif
#include <dzn/meta.hh>
#include <dzn/locator.hh>
#include <dzn/pump.hh>
#include <dzn/runtime.hh>
// std::mutex as used by the generated code becomes a gated wrapper
namespace std { struct vf_mutex { std::mutex real; void lock() { vf_gate("lock-wait"); real.lock(); ++vf_held; } void unlock() { --vf_held; real.unlock(); } bool try_lock() { bool b = real.try_lock(); if (b) ++vf_held; return b; } }; }
namespace std {
struct vf_recursive_mutex { std::recursive_mutex real; void lock() { vf_gate("lock-wait"); real.lock(); ++vf_held; } void unlock() { --vf_held; real.unlock(); } bool try_lock() { bool b = real.try_lock(); if (b) ++vf_held; return b; } };
struct vf_shared_mutex { std::shared_mutex real; void lock() { vf_gate("lock-wait"); real.lock(); ++vf_held; } void unlock() { --vf_held; real.unlock(); } bool try_lock() { bool b = real.try_lock(); if (b) ++vf_held; return b; }
    void lock_shared() { vf_gate("lock-wait"); real.lock_shared(); ++vf_held; } void unlock_shared() { --vf_held; real.unlock_shared(); } bool try_lock_shared() { bool b = real.try_lock_shared(); if (b) ++vf_held; return b; } };
}
#define mutex vf_mutex
#define recursive_mutex vf_recursive_mutex
#define shared_mutex vf_shared_mutex
struct OtherService { int x = 0; };
#define private public
#include "@SOURCE@"
#undef private
#undef mutex
#undef recursive_mutex
#undef shared_mutex
static dzn::pump* g_pump = nullptr;
static bool g_claimed = false;
static @ENC@& g_enc(@SHELL@& s) { return s.m_encapsulee; }
int main(int argc, char** argv)
{
'''.replace('@SOURCE@', info['source']).replace('@ENC@', enc_t).replace('@SHELL@', shell_t)
    # the log sink: an observable event and a gate
    log_setup = [f'    mcLog.Info = [&](auto msg) {{ if (!dzn::vf_token_depth) vf_gate("log"); vf_event(std::string("log.Info:") + msg); }};',
                 f'    mcLog.Warning = [&](auto msg) {{ if (!dzn::vf_token_depth) vf_gate("log"); vf_event(std::string("log.Warning:") + msg); }};',
                 f'    mcLog.Error = [&](auto msg) {{ if (!dzn::vf_token_depth) vf_gate("log"); vf_event(std::string("log.Error:") + msg); }};']
    body = []
    for line in L:
        body.append(line)
        if line.strip().startswith(f'{sup}::ILog mcLog;'):
            body += log_setup
    return head + '\n'.join(body) + '\n    return 0;\n}\n'


def build(info: Dict, pc, prog_dir: str, cycles: int, n_out: int, clients: List[str], tsan: bool = False,
          variant: int = 0) -> Tuple[str, str]:
    """-> (executable path | '', compiler diagnostics)"""
    tagname = 'drv_threads_tsan' if tsan else 'drv_threads'
    src = os.path.join(prog_dir, tagname + '.cc')
    exe = os.path.join(prog_dir, tagname)
    with open(src, 'w', encoding='utf-8') as fh:
        fh.write(driver_source(info, pc, cycles, n_out, clients, variant))
    cmd = ['g++', '-std=c++17', '-O0', '-g', '-w', '-I', MOCK_INC, '-I', prog_dir, src, '-o', exe, '-pthread']
    if tsan:
        cmd[3:3] = ['-fsanitize=thread', '-DVF_TSAN']
    proc = subprocess.run(cmd, capture_output=True, text=True, timeout=900, check=False)
    if proc.returncode != 0:
        return '', proc.stderr[:1500]
    return exe, ''


def run(exe: str, schedule: List[str], timeout: int = 60) -> Tuple[str, str, str]:
    """-> (status, stdout, stderr); an empty schedule is a free run (all gates open)"""
    env = dict(os.environ)
    env['TSAN_OPTIONS'] = 'halt_on_error=0 report_signal_unsafe=0'
    try:
        proc = subprocess.run([exe] + ([','.join(schedule)] if schedule else []), capture_output=True, text=True,
                              timeout=timeout, check=False, env=env)
    except subprocess.TimeoutExpired as exc:
        out = exc.stdout.decode('utf-8', 'replace') if isinstance(exc.stdout, bytes) else (exc.stdout or '')
        return 'timeout', out, ''
    if proc.returncode != 0 and 'ThreadSanitizer' not in proc.stderr:
        return 'crash', proc.stdout, proc.stderr
    return 'ok', proc.stdout, proc.stderr


def run_schedule(info: Dict, pc, prog_dir: str, schedule: List[str], cycles: int, n_out: int,
                 tsan: bool = False, clients=('c0', 'c1')) -> Tuple[str, str]:
    exe, diag = build(info, pc, prog_dir, cycles, n_out, list(clients), tsan)
    if not exe:
        return 'compile-error', diag
    st, out, err = run(exe, schedule)
    return st, out + ('\nTSAN ' + err[:3000] if 'ThreadSanitizer' in err else '')


def tsan_reports(stderr: str) -> List[str]:
    """one line per ThreadSanitizer report that involves generated code"""
    out = []
    for block in stderr.split('WARNING: ThreadSanitizer: ')[1:]:
        frames = [ln.strip() for ln in block.splitlines() if ln.strip().startswith('#')]
        gen = [f for f in frames if ('Dzn_' in f or 'AdvShell' in f) and 'drv_threads' in f]
        kind = block.splitlines()[0].split('(')[0].strip()
        if gen:
            where = gen[0].split(' ', 1)[1].split(' /')[0][:120]
            out.append(f'{kind}: {where}')
    return sorted(set(out))


def judge(output: str) -> List[str]:
    """the delivery oracle on the compiled program's output"""
    out = []
    for line in output.splitlines():
        if line.startswith('RAISE '):
            holders = line.split('holders=[')[1].split(']')[0]
            got = line.split('got=[')[1].split(']')[0]
            hs = [h for h in holders.split(',') if h]
            gs = [g for g in got.split(',') if g]
            if len(hs) == 1 and gs != hs:
                out.append(f'client {hs[0]} was granted the claim and has not released, but the out-event was '
                           f'delivered to {gs or "nobody"}')
    return out


def events_of(output: str) -> List[Tuple[str, str]]:
    out = []
    for line in output.splitlines():
        if line.startswith('EVENT '):
            _e, tid, tag = line.split(' ', 2)
            if tid != 'main':
                out.append((tid, tag))
    return out


def hazards_of(output: str) -> List[str]:
    return [line[7:] for line in output.splitlines() if line.startswith('HAZARD ')]


def run_mutex_wrapped(info: Dict, prog_dir: str) -> Tuple[str, List[str]]:
    """MutexWrapped on the compiled header: exclusion while the pointer lives, release at reset and scope exit,
    and exclusion between two real threads."""
    sup = '::' + '::'.join(info['support_ns'])
    hdr = next((f for f in info['files'] if 'MutexWrapped' in f), None)
    if hdr is None:
        return 'no-header', []
    src = os.path.join(prog_dir, 'drv_mw.cc')
    exe = os.path.join(prog_dir, 'drv_mw')
    code = r"""
#include <iostream>
#include <thread>
#include <atomic>
#include <chrono>
#include <mutex>
#include <shared_mutex>
#include <memory>
#include <optional>
#include <functional>
#define private public
#include "@HDR@"
#undef private
int main()
{
    @SUP@::MutexWrapped<int> w;
    auto free_now = [&] { bool got = false; std::thread probe([&] { got = w.m_mutex.try_lock(); if (got) w.m_mutex.unlock(); }); probe.join(); return got; };
    std::atomic<bool> entered{false};
    std::thread second;
    {
        auto p = w();
        *p = 5;
        bool got = false;
        std::thread probe([&] { got = w.m_mutex.try_lock(); if (got) w.m_mutex.unlock(); }); probe.join();
        if (got) std::cout << "FAIL mutex not held while the pointer is alive" << std::endl;
        if (p.get() != &w.m_protectee) std::cout << "FAIL operator() does not hand out the protected value" << std::endl;
        // a second thread asking for the pointer must block until the first pointer is gone
        second = std::thread([&] { auto q = w(); entered = true; });
        std::this_thread::sleep_for(std::chrono::milliseconds(300));
        if (entered) std::cout << "FAIL a second thread is handed the pointer while the first one is alive" << std::endl;
    }
    second.join();
    if (!free_now()) std::cout << "FAIL lock not released at scope exit" << std::endl;
    {
        auto p = w();
        p.reset();
        if (!free_now()) std::cout << "FAIL lock not released on explicit reset" << std::endl;
    }
    if (!free_now()) std::cout << "FAIL lock held after reset and scope exit" << std::endl;
    std::atomic<int> inside{0}; std::atomic<bool> overlap{false}; std::atomic<int> ready{0};
    auto worker = [&] { ++ready; while (ready < 2) { } for (int i = 0; i < 20000; ++i) { auto p = w(); if (inside.fetch_add(1) != 0) overlap = true; *p += 1; inside.fetch_sub(1); } };
    { auto p = w(); *p = 0; }
    std::thread a(worker), b(worker); a.join(); b.join();
    if (overlap) std::cout << "FAIL two threads inside at once" << std::endl;
    { auto p = w(); if (*p != 40000) std::cout << "FAIL lost update " << *p << std::endl; }
    std::cout << "MW done" << std::endl;
    return 0;
}
""".replace('@HDR@', hdr).replace('@SUP@', sup)
    with open(src, 'w', encoding='utf-8') as fh:
        fh.write(code)
    proc = subprocess.run(['g++', '-std=c++17', '-O0', '-w', '-I', MOCK_INC, '-I', prog_dir, src, '-o', exe, '-pthread'],
                          capture_output=True, text=True, timeout=600, check=False)
    if proc.returncode != 0:
        return 'compile-error: ' + proc.stderr[:600], []
    try:
        run = subprocess.run([exe], capture_output=True, text=True, timeout=120, check=False)
    except subprocess.TimeoutExpired as exc:
        out = exc.stdout.decode('utf-8', 'replace') if isinstance(exc.stdout, bytes) else (exc.stdout or '')
        return 'ok', [line[5:] for line in out.splitlines() if line.startswith('FAIL ')] + ['the test program hangs']
    if 'MW done' not in run.stdout:
        return 'crash: ' + (run.stdout + run.stderr)[-400:], []
    return 'ok', [line[5:] for line in run.stdout.splitlines() if line.startswith('FAIL ')]
