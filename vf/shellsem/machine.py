"""ShellSem abstract machine: executes clang's typed AST of the *generated* C++ (shell, support
headers, mock model header) over z3 terms.

Object structure (records, std::function slots, closures, maps, optionals, locators, the pump) is
concrete; data (event arguments, replies, service presence, binding state) may be z3 terms, and
every branch on such a term forks the execution (path condition checked by z3).  Library and
runtime calls are intrinsics keyed by the callee name clang resolved.  Anything outside the
interpreted subset raises Unsupported => the program is inconclusive, never "ok".
"""
import copy as _copy
import re
from typing import Any, Callable, Dict, List, Optional, Tuple

import z3

from .program import Program, Record, Func, Unsupported, norm_type


# ---- values -------------------------------------------------------------------------------------------

class Loc:
    __slots__ = ('v', 'alive', 'label')

    def __init__(self, v=None, label=''):
        self.v = v
        self.alive = True
        self.label = label

    def __repr__(self):
        return f'<Loc {self.label} {"" if self.alive else "DEAD "}{type(self.v).__name__}>'


class StructV:
    def __init__(self, type_name: str, rec: Optional[Record]):
        self.type = type_name
        self.rec = rec
        self.fields: Dict[str, Loc] = {}

    def __repr__(self):
        return f'<{self.type} {list(self.fields)}>'


class Closure:
    def __init__(self, node, run, captures, this_ptr, params, body, label):
        self.node, self.run, self.captures, self.this_ptr = node, run, captures, this_ptr
        self.params, self.body, self.label = params, body, label
        self.by_ref_names: List[str] = []
        self.by_val_names: List[str] = []


class FuncV:
    """value of a std::function"""
    def __init__(self, kind='empty', target=None):
        self.kind = kind            # empty | closure | ref | external | symbolic
        self.target = target        # Closure | Loc (of the referenced std::function) | External | z3 Bool


class External:
    """user-side or component-side handler bound by the scenario"""
    def __init__(self, name: str, impl: Callable):
        self.name, self.impl = name, impl


class PtrV:
    def __init__(self, target: Optional[Loc], nonnull: Any = None):
        self.target = target
        self.nonnull = (target is not None) if nonnull is None else nonnull   # bool or z3 Bool


class OptV:
    def __init__(self):
        self.has = False
        self.val = None


class RefWrapV:
    def __init__(self, target: Loc):
        self.target = target


class MapV:
    def __init__(self):
        self.items: Dict[Any, Loc] = {}


class VecV:
    def __init__(self):
        self.items: List[Any] = []


class PairV:
    def __init__(self, first, second: Loc):
        self.first, self.second = first, second


class MutexV:
    def __init__(self, flavour: str = 'plain'):
        self.locked = False                 # held exclusively
        self.flavour = flavour              # plain | recursive | shared
        self.depth = 0                      # recursive: nesting of the owner
        self.owner = None
        self.readers: List[str] = []        # shared: threads holding it shared
        self.events: List[str] = []


class UniqueLockV:
    """std::unique_lock / lock_guard / scoped_lock (one mutex) / shared_lock (shared=True)"""
    def __init__(self, mutex: Optional[Loc], owns: bool, shared: bool = False):
        self.mutex, self.owns, self.shared = mutex, owns, shared


class UniquePtrV:
    def __init__(self, ptr: Optional[Loc], deleter):
        self.ptr, self.deleter = ptr, deleter


class LocatorV:
    def __init__(self):
        self.services: Dict[str, Tuple[Any, Loc]] = {}    # type key -> (present: bool|z3 Bool, Loc)
        self.origin = None


class PumpV:
    def __init__(self, label='pump'):
        self.queue: List[FuncV] = []
        self.in_dispatcher = 0
        self.executed = 0
        self.label = label


class RuntimeV:
    def __init__(self, label='runtime'):
        self.label = label


class Sym:
    """a scalar z3 term"""
    def __init__(self, term, ctype=''):
        self.term, self.ctype = term, ctype

    def __repr__(self):
        return f'Sym({self.term})'


class BoundMethod:
    def __init__(self, obj: Loc, name: str, node: dict):
        self.obj, self.name, self.node = obj, name, node


class FuncRef:
    def __init__(self, name: str, decl_id: str, node: dict):
        self.name, self.decl_id, self.node = name, decl_id, node


class LogSink:
    def __init__(self):
        self.messages: List[Tuple[str, str]] = []


# ---- control flow exceptions -----------------------------------------------------------------------

class ReturnEx(Exception):
    def __init__(self, value):
        self.value = value


class CppThrow(Exception):
    def __init__(self, type_name: str, what: str):
        super().__init__(f'{type_name}: {what}')
        self.type_name, self.what = type_name, what


class Dangling(Exception):
    """read or write through a dead location (use after scope exit)"""


class Deadlock(Exception):
    pass


class UninitRead(Exception):
    """a member is read before its constructor initialiser ran (declaration order)"""


class MapIterV:
    """iterator into a std::map: the entry (PairV) or end()"""
    def __init__(self, container, entry):
        self.container, self.entry = container, entry


class LockTag:
    """std::defer_lock / std::try_to_lock / std::adopt_lock"""
    def __init__(self, name: str):
        self.name = name


class PathAbort(Exception):
    """infeasible path (internal)"""


class Frame:
    def __init__(self, run: str, this_ptr: Optional[Loc], label: str):
        self.run, self.this_ptr, self.label = run, this_ptr, label
        self.vars: Dict[str, Loc] = {}
        self.locals: List[Loc] = []     # owned by this frame (die at exit)
        self.temps: List[Loc] = []


_STR_TYPES = ('std::basic_string', 'std::string', 'std::__cxx11::basic_string')


def is_string_type(t: str) -> bool:
    t = t.replace('const ', '').strip()
    return t.startswith(_STR_TYPES) or t in ('std::string', 'ClientIdentifier', '::Dzn::ClientIdentifier')


def type_kind(t: str) -> str:
    """classify a (desugared) type string"""
    n = t.replace('const ', '').replace('struct ', '').strip()
    while n.startswith('::'):
        n = n[2:]
    base = n.split('<')[0].strip()
    if base in ('std::function',):
        return 'function'
    if base.startswith('std::basic_string') or base.startswith('std::__cxx11::basic_string') or base == 'std::string':
        return 'string'
    if base == 'std::map':
        return 'map'
    if base == 'std::optional':
        return 'optional'
    if base == 'std::vector':
        return 'vector'
    if base in ('std::mutex', 'std::recursive_mutex', 'std::shared_mutex', 'std::shared_timed_mutex',
                'std::timed_mutex'):
        return 'mutex'
    if base in ('std::unique_lock', 'std::lock_guard', 'std::scoped_lock'):
        return 'unique_lock'
    if base == 'std::shared_lock':
        return 'shared_lock'
    if base == 'std::unique_ptr':
        return 'unique_ptr'
    if base == 'std::reference_wrapper' or base == 'reference_wrapper':
        return 'refwrap'
    if base in ('bool', 'int', 'long', 'unsigned', 'unsigned long', 'size_t', 'char'):
        return 'scalar'
    if n.endswith('*'):
        return 'pointer'
    if base == 'dzn::locator':
        return 'locator'
    if base == 'dzn::pump':
        return 'pump'
    if base == 'dzn::runtime':
        return 'runtime'
    if base.startswith('std::'):
        return 'std-other'
    return 'record'


class Machine:
    def __init__(self, prog: Program, oracle=None):
        self.prog = prog
        self.oracle = oracle            # decides symbolic branches (see explore.py)
        self.frames: List[Frame] = []
        self.statics: Dict[Tuple, Loc] = {}     # static / thread_local / namespace-scope variables
        self.trace: List[Tuple] = []    # observable events recorded by externals / intrinsics
        self.log = LogSink()
        self.steps = 0
        self.max_steps = 200000
        self.support_prefix = ''

    # ---- helpers ------------------------------------------------------------------------------------
    def frame(self) -> Frame:
        return self.frames[-1]

    def new_local(self, v, label='') -> Loc:
        loc = Loc(v, label)
        self.frame().locals.append(loc)
        return loc

    def new_temp(self, v, label='tmp') -> Loc:
        loc = Loc(v, label)
        self.frame().temps.append(loc)
        return loc

    def load(self, loc: Loc):
        if not isinstance(loc, Loc):
            raise Unsupported(f'load from non-location {type(loc).__name__}')
        if not loc.alive:
            raise Dangling(f'read of dead object {loc.label}')
        return loc.v

    def store(self, loc: Loc, v):
        if not loc.alive:
            raise Dangling(f'write to dead object {loc.label}')
        loc.v = v

    def decide(self, cond) -> bool:
        """branch on a possibly symbolic condition"""
        if isinstance(cond, Sym):
            cond = cond.term
        if isinstance(cond, bool):
            return cond
        if isinstance(cond, int):
            return cond != 0
        if z3.is_bool(cond):
            cond = z3.simplify(cond)
            if z3.is_true(cond):
                return True
            if z3.is_false(cond):
                return False
            if self.oracle is None:
                raise Unsupported('symbolic branch without an oracle')
            return self.oracle.decide(cond)
        raise Unsupported(f'branch on {type(cond).__name__}')

    # ---- copying -------------------------------------------------------------------------------------
    def copy_value(self, v):
        if isinstance(v, StructV):
            out = StructV(v.type, v.rec)
            for k, loc in v.fields.items():
                out.fields[k] = Loc(self.copy_value(self.load(loc)), loc.label)
            return out
        if isinstance(v, FuncV):
            if v.kind == 'closure':
                c = v.target
                caps = {}
                for key, (mode, loc) in c.captures.items():
                    caps[key] = (mode, Loc(self.copy_value(self.load(loc)), loc.label)) if mode == 'val' \
                        else (mode, loc)
                nc = Closure(c.node, c.run, caps, c.this_ptr, c.params, c.body, c.label)
                nc.by_ref_names, nc.by_val_names = c.by_ref_names, c.by_val_names
                return FuncV('closure', nc)
            return FuncV(v.kind, v.target)
        if isinstance(v, OptV):
            o = OptV()
            o.has, o.val = v.has, self.copy_value(v.val)
            return o
        if isinstance(v, MapV):
            m = MapV()
            for k, loc in v.items.items():
                m.items[k] = Loc(self.copy_value(self.load(loc)), loc.label)
            return m
        if isinstance(v, VecV):
            o = VecV()
            o.items = [self.copy_value(x) for x in v.items]
            return o
        if isinstance(v, LocatorV):
            o = LocatorV()
            o.services = dict(v.services)
            o.origin = v
            return o
        if isinstance(v, (RefWrapV, PtrV)):
            return v
        if isinstance(v, (PumpV, MutexV, RuntimeV, UniqueLockV, UniquePtrV)):
            raise Unsupported(f'copy of non-copyable {type(v).__name__}')
        return v     # python immutables, Sym, External refs, LogSink

    # ---- default construction by type --------------------------------------------------------------------
    def default_value(self, type_str: str, label: str = ''):
        kind = type_kind(type_str)
        if kind == 'function':
            return FuncV('empty')
        if kind == 'string':
            return ''
        if kind == 'map':
            return MapV()
        if kind == 'optional':
            return OptV()
        if kind == 'vector':
            return VecV()
        if kind == 'mutex':
            return MutexV('recursive' if 'recursive' in type_str else 'shared' if 'shared' in type_str else 'plain')
        if kind in ('unique_lock', 'shared_lock'):
            return UniqueLockV(None, False, shared=(kind == 'shared_lock'))
        if kind == 'scalar':
            return 0 if 'bool' not in type_str else False
        if kind == 'pointer':
            return PtrV(None)
        if kind == 'locator':
            return LocatorV()
        if kind == 'pump':
            return PumpV(label or 'pump')
        if kind == 'runtime':
            return RuntimeV(label or 'runtime')
        if kind == 'record':
            rec = self.prog.record_for_type(type_str)
            if rec is None:
                raise Unsupported(f'no layout for type {type_str!r}')
            return self.construct_record(rec, type_str, None, [], label)
        raise Unsupported(f'default construction of {type_str!r}')

    def alloc_struct(self, rec: Record, type_str: str) -> StructV:
        sv = StructV(type_str, rec)
        return sv

    def record_fields(self, rec: Record):
        """fields incl. base-class fields (flattened, bases first)"""
        out = []
        for b in rec.bases:
            brec = self.prog.record_for_type(b)
            if brec is None:
                raise Unsupported(f'unknown base {b}')
            out += self.record_fields(brec)
        return out + rec.fields

    def construct_record(self, rec: Record, type_str: str, ctor_node: Optional[dict], args: List[Any],
                         label: str = '') -> StructV:
        """Run a constructor of a user record (or default/aggregate construct it)."""
        sv = self.alloc_struct(rec, type_str)
        this_loc = Loc(sv, label or rec.name)
        ctor = self.find_ctor(rec, len(args))
        if rec.name in ('ILog',) and not args:
            for f in ('Info', 'Warning', 'Error'):
                sv.fields[f] = Loc(FuncV('external', External('log.' + f, self._log_impl(f))), f)
            return sv
        if ctor is None:
            if args:
                raise Unsupported(f'no constructor of {rec.name} with {len(args)} args: ' + ', '.join(type(self.load(a)).__name__ if isinstance(a, Loc) else type(a).__name__ for a in args))
            self.default_init_fields(rec, sv, this_loc, set())
            return sv
        self.run_ctor(rec, ctor, this_loc, args)
        return sv

    def _log_impl(self, level):
        def impl(machine, args):
            msg = args[0] if args else ''
            if isinstance(msg, Loc):
                msg = machine.load(msg)
            machine.log.messages.append((level, str(msg)))
            machine.trace.append(('log', level, str(msg)))
            machine.on_log(level, str(msg))
            return None
        return impl

    def find_ctor(self, rec: Record, nargs: int) -> Optional[Func]:
        cands = [f for f in rec.methods.get(rec.name, []) if f.body is not None
                 and not f.node.get('isImplicit')]
        exact = [f for f in cands if len(f.params) == nargs]
        if exact:
            return exact[-1]
        more = [f for f in cands if len(f.params) > nargs and nargs > 0]
        return more[-1] if more else None

    def default_init_fields(self, rec: Record, sv: StructV, this_loc: Loc, skip: set):
        for fld in self.record_fields(rec):
            if fld.name in skip or fld.name in sv.fields:
                continue
            if fld.init is not None:
                self.push_frame(rec.run, this_loc, f'{rec.name}.{fld.name}-init')
                try:
                    v = self.eval_init(fld.init, fld.type)
                finally:
                    self.pop_frame()
                sv.fields[fld.name] = Loc(v, fld.name)
            elif fld.anon_record is not None:
                sub = StructV(fld.type, fld.anon_record)
                self.default_init_fields(fld.anon_record, sub, this_loc, set())
                sv.fields[fld.name] = Loc(sub, fld.name)
            elif fld.type.rstrip().endswith('&'):
                sv.fields[fld.name] = None      # reference member: must be bound by a constructor
            else:
                sv.fields[fld.name] = Loc(self.default_value(fld.type, fld.name), fld.name)

    def eval_init(self, node: dict, type_str: str):
        """initialiser expression for an object of type_str (handles prvalue / init list)"""
        v = self.rv(node)
        return v

    def run_ctor(self, rec: Record, ctor: Func, this_loc: Loc, args: List[Any]):
        sv: StructV = this_loc.v
        self.push_frame(ctor.run, this_loc, f'{rec.name}::{rec.name}')
        try:
            self.bind_params(ctor, args)
            done = set()
            all_fields = {f.name: f for f in self.record_fields(rec)}
            for init in ctor.ctor_inits:
                any_init = init.get('anyInit')
                expr = next((c for c in init.get('inner', []) if 'kind' in c), None)
                if any_init is None:
                    # base class initialiser: ILogWithContext(...) : ILog()
                    base = init.get('baseInit')
                    if base is not None:
                        brec = self.prog.record_for_type(base.get('qualType', ''))
                        if brec is None:
                            raise Unsupported('base initialiser of unknown base')
                        bv = self.rv(expr) if expr is not None else self.default_value(base['qualType'])
                        if isinstance(bv, StructV):
                            for k, loc in bv.fields.items():
                                sv.fields[k] = loc
                                done.add(k)
                        continue
                    raise Unsupported('constructor initialiser without member')
                fname = any_init.get('name')
                fld = all_fields.get(fname)
                if fld is None:
                    raise Unsupported(f'initialiser for unknown member {fname}')
                if expr is not None and expr.get('kind') == 'CXXDefaultInitExpr':
                    if fld.init is None:
                        raise Unsupported(f'default member initialiser of {fname} not found')
                    expr = fld.init
                if fld.anon_record is not None:
                    sub = StructV(fld.type, fld.anon_record)
                    self.default_init_fields(fld.anon_record, sub, this_loc, set())
                    sv.fields[fname] = Loc(sub, fname)
                elif fld.type.rstrip().endswith('&'):
                    target = self.lv(expr)
                    sv.fields[fname] = target                 # reference member aliases the target
                else:
                    v = self.rv(expr)
                    sv.fields[fname] = Loc(self._own(v), fname)
                done.add(fname)
            self.default_init_fields(rec, sv, this_loc, done)
            if ctor.body is not None:
                try:
                    self.exec_stmt(ctor.body)
                except ReturnEx:
                    pass
        finally:
            self.pop_frame()

    def _own(self, v):
        """a prvalue being stored: values are already fresh"""
        return v

    # ---- frames ---------------------------------------------------------------------------------------
    def push_frame(self, run: str, this_ptr: Optional[Loc], label: str):
        if len(self.frames) > 60:
            raise Unsupported('call depth exceeded')
        self.frames.append(Frame(run, this_ptr, label))

    def pop_frame(self):
        fr = self.frames.pop()
        # destroy locals in reverse order (RAII: unique_ptr with lock deleter, unique_lock)
        for loc in reversed(fr.locals + fr.temps):
            self.destroy(loc)

    def destroy(self, loc: Loc):
        if not loc.alive:
            return
        v = loc.v
        try:
            if isinstance(v, UniquePtrV):
                if v.ptr is not None:
                    self.call_deleter(v)
                self.destroy_deleter(v)
            elif isinstance(v, UniqueLockV) and v.owns:
                self.unlock(v)
        finally:
            loc.alive = False
            if isinstance(v, StructV):
                for sub in v.fields.values():
                    if isinstance(sub, Loc) and sub.label != '__ref__':
                        pass     # members die with the object (kept simple: only the top Loc is marked)

    def call_deleter(self, up: UniquePtrV):
        d = up.deleter
        if isinstance(d, StructV) and d.rec is not None:
            fn = self.prog.method(d.rec, 'operator()', 1)
            if fn is None:
                raise Unsupported('deleter without operator()')
            self.call_function(fn, Loc(d, 'deleter'), [PtrV(up.ptr)])
        up.ptr = None

    def destroy_deleter(self, up: UniquePtrV):
        """the unique_ptr itself dies: its deleter object dies with it, and so do the deleter's members (a
        unique_lock member releases a mutex it still owns); reset() alone does not do this"""
        d = up.deleter
        if isinstance(d, StructV):
            for sub in d.fields.values():
                if isinstance(sub, Loc) and isinstance(sub.v, UniqueLockV) and sub.v.owns:
                    self.unlock(sub.v)

    _tid = 'main'

    def tid(self) -> str:
        return self._tid

    def can_take(self, m: MutexV, shared: bool, me: str) -> bool:
        if m.flavour == 'recursive' and m.locked and m.owner == me:
            return True
        if shared:
            return not m.locked
        return not m.locked and not m.readers

    def take(self, m: MutexV, shared: bool, me: str):
        if shared:
            m.readers.append(me)
        else:
            m.locked = True
            m.owner = me
            m.depth += 1

    def give(self, m: MutexV, shared: bool, me: str):
        if shared:
            if me in m.readers:
                m.readers.remove(me)
        else:
            m.depth = max(0, m.depth - 1)
            if m.depth == 0:
                m.locked = False
                m.owner = None

    def lock(self, ul: UniqueLockV, wait: bool = True):
        m: MutexV = self.load(ul.mutex)
        if not self.can_take(m, ul.shared, self.tid()):
            raise Deadlock('mutex locked twice on one thread of execution')
        self.take(m, ul.shared, self.tid())
        m.events.append('lock')
        ul.owns = True
        self.trace.append(('mutex', 'lock'))

    def unlock(self, ul: UniqueLockV):
        m: MutexV = self.load(ul.mutex)
        self.give(m, ul.shared, self.tid())
        m.events.append('unlock')
        ul.owns = False
        self.trace.append(('mutex', 'unlock'))

    # ---- dispatcher (overridden by the threaded machine) -----------------------------------------------
    def do_shell(self, pump: 'PumpV', fv: 'FuncV'):
        """dzn::shell: run the closure in the dispatcher's context, block until done, hand back its result"""
        pump.in_dispatcher += 1
        self.trace.append(('shell-enter', pump.label))
        try:
            return self.call_funcv(fv, [], 'dzn::shell')
        finally:
            pump.in_dispatcher -= 1
            pump.executed += 1
            self.trace.append(('shell-leave', pump.label))

    def do_post(self, pump: 'PumpV', fv: 'FuncV'):
        """dzn::pump::operator(): queue the closure for the dispatcher and return"""
        pump.queue.append(fv)
        self.trace.append(('post', pump.label))

    def note_access(self, loc, write: bool):
        """hook for shared-state tracking (threaded machine)"""

    def on_log(self, level: str, msg: str):
        """hook: the user's log sink received a message"""

    def before_external(self, ext):
        """hook: an instrumented handler / log sink is about to run (observable event)"""

    def bind_params(self, fn: Func, args: List[Any]):
        fr = self.frame()
        for i, p in enumerate(fn.params):
            ptype = p.get('type', {}).get('qualType', '')
            if i < len(args):
                a = args[i]
            else:
                dflt = next((c for c in p.get('inner', []) if 'kind' in c), None)
                if dflt is None:
                    raise Unsupported(f'missing argument {i} for {fn.name}')
                a = self.rv(dflt) if not ptype.rstrip().endswith('&') else self.lv(dflt)
            if ptype.rstrip().endswith('&'):
                if not isinstance(a, Loc):
                    a = Loc(a, p.get('name', 'arg'))       # temporary bound to a reference
                    fr.temps.append(a)
                fr.vars[p['id']] = a
            else:
                if isinstance(a, Loc):
                    a = self.copy_value(self.load(a))
                loc = Loc(a, p.get('name', 'arg'))
                fr.locals.append(loc)
                fr.vars[p['id']] = loc

    # ---- calls ----------------------------------------------------------------------------------------
    def call_function(self, fn: Func, this_loc: Optional[Loc], args: List[Any]):
        self.steps += 1
        if self.steps > self.max_steps:
            raise Unsupported('step budget exceeded')
        if fn.body is None:
            raise Unsupported(f'call of {fn.name} without a body')
        self.push_frame(fn.run, this_loc, f'{fn.record or ""}::{fn.name}')
        try:
            self.bind_params(fn, args)
            try:
                self.exec_stmt(fn.body)
            except ReturnEx as ret:
                return ret.value
            return None
        finally:
            self.pop_frame()

    def call_funcv(self, fv: FuncV, args: List[Any], where: str = ''):
        """invoke a std::function value"""
        hops = 0
        while fv.kind == 'ref':
            fv = self.load(fv.target)
            hops += 1
            if hops > 20:
                raise Unsupported('reference_wrapper cycle')
            if not isinstance(fv, FuncV):
                raise Unsupported('std::ref to a non-function')
        if fv.kind == 'empty':
            raise CppThrow('std::bad_function_call', where)
        if fv.kind == 'symbolic':
            raise Unsupported('call of a symbolically-bound slot')
        if fv.kind == 'external':
            self.before_external(fv.target)
            return fv.target.impl(self, args)
        clo: Closure = fv.target
        self.push_frame(clo.run, clo.this_ptr, clo.label)
        try:
            fr = self.frame()
            for key, (_mode, loc) in clo.captures.items():
                fr.vars[key] = loc
            for i, p in enumerate(clo.params):
                ptype = p.get('type', {}).get('qualType', '')
                if i >= len(args):
                    raise Unsupported('closure called with too few arguments')
                a = args[i]
                if ptype.rstrip().endswith('&'):
                    if not isinstance(a, Loc):
                        a = Loc(a, p.get('name', 'arg'))
                        fr.temps.append(a)
                    fr.vars[p['id']] = a
                else:
                    if isinstance(a, Loc):
                        a = self.copy_value(self.load(a))
                    loc = Loc(a, p.get('name', 'arg'))
                    fr.locals.append(loc)
                    fr.vars[p['id']] = loc
            try:
                self.exec_stmt(clo.body)
            except ReturnEx as ret:
                return ret.value
            return None
        finally:
            self.pop_frame()

    # ---- statements ---------------------------------------------------------------------------------------
    def exec_stmt(self, node: dict):
        kind = node.get('kind')
        if kind == 'CompoundStmt':
            fr = self.frame()
            mark = len(fr.locals)
            try:
                for c in node.get('inner', []):
                    self.exec_stmt(c)
            finally:
                # block scope: automatic variables declared in this block die here, in reverse order
                dying = fr.locals[mark:]
                del fr.locals[mark:]
                for loc in reversed(dying):
                    self.destroy(loc)
        elif kind == 'DeclStmt':
            for c in node.get('inner', []):
                self.exec_decl(c)
        elif kind == 'ReturnStmt':
            inner = [c for c in node.get('inner', []) if 'kind' in c]
            if not inner:
                raise ReturnEx(None)
            expr = inner[0]
            mark = len(self.frame().temps)
            if expr.get('valueCategory') in ('lvalue', 'xvalue') and self._returns_reference():
                v = self.lv(expr)
            else:
                v = self.rv(expr)
            self.end_full_expression(mark)
            raise ReturnEx(v)
        elif kind == 'IfStmt':
            inner = [c for c in node.get('inner', []) if 'kind' in c]
            mark = len(self.frame().temps)
            cond = self.truth(self.rv(inner[0]))
            self.end_full_expression(mark)
            if self.decide(cond):
                self.exec_stmt(inner[1])
            elif len(inner) > 2:
                self.exec_stmt(inner[2])
        elif kind == 'CXXForRangeStmt':
            self.exec_for_range(node)
        elif kind == 'NullStmt':
            return
        else:
            self.rv_or_void(node)

    def _returns_reference(self) -> bool:
        # decided by the callee's declared return type; stored on the frame by call sites that need it
        return getattr(self.frame(), 'ret_ref', False)

    def end_full_expression(self, mark: int):
        """temporaries materialised since `mark` die (reverse order); lifetime-extended ones are locals"""
        fr = self.frame()
        dying = fr.temps[mark:]
        del fr.temps[mark:]
        for loc in reversed(dying):
            self.destroy(loc)

    def rv_or_void(self, node: dict):
        cat = node.get('valueCategory')
        mark = len(self.frame().temps)
        if cat in ('lvalue', 'xvalue'):
            self.lv(node)
        else:
            self.rv(node)
        self.end_full_expression(mark)

    def exec_decl(self, node: dict):
        kind = node.get('kind')
        if kind == 'VarDecl':
            vtype = node.get('type', {}).get('qualType', '')
            init = next((c for c in node.get('inner', []) if 'kind' in c), None)
            fr = self.frame()
            mark = len(fr.temps)
            if node.get('storageClass') == 'static' or node.get('tls'):
                # function-local static / thread_local: initialised once (per thread), lives on
                key = (node['id'], self.tid() if node.get('tls') else None)
                if key not in self.statics:
                    self.statics[key] = self._init_static(node, init, vtype)
                    self.end_full_expression(mark)
                fr.vars[node['id']] = self.statics[key]
                return
            if vtype.rstrip().endswith('&'):
                fr.vars[node['id']] = self.lv(init)
                self.end_full_expression(mark)
                return
            if init is None:
                v = self.default_value(node.get('type', {}).get('desugaredQualType') or vtype, node.get('name'))
            else:
                v = self.rv(init)
                if isinstance(v, Loc):
                    v = self.copy_value(self.load(v))
            loc = Loc(v, node.get('name', 'var'))
            fr.locals.append(loc)
            fr.vars[node['id']] = loc
            self.end_full_expression(mark)
        elif kind in ('TypedefDecl', 'TypeAliasDecl', 'StaticAssertDecl', 'UsingDecl'):
            return
        else:
            raise Unsupported(f'declaration {kind}')

    def _init_static(self, node: dict, init: Optional[dict], vtype: str) -> Loc:
        if init is None:
            v = self.default_value(node.get('type', {}).get('desugaredQualType') or vtype, node.get('name'))
        else:
            v = self.rv(init)
            if isinstance(v, Loc):
                v = self.copy_value(self.load(v))
        return Loc(v, 'static ' + node.get('name', 'var'))

    def global_var(self, ref: dict) -> Optional[Loc]:
        """namespace-scope variable or static data member, initialised at first use (its initialiser has no
        access to locals); thread_local ones per thread"""
        run = self.frame().run
        node = self.prog.var_decls.get((run, ref['id']))
        if node is None:
            node = next((n for (r, i), n in self.prog.var_decls.items() if i == ref['id']), None)
        if node is None:
            return None
        key = (node['id'], self.tid() if node.get('tls') else None)
        if key not in self.statics:
            init = next((c for c in node.get('inner', []) if 'kind' in c and c['kind'] != 'FullComment'), None)
            vtype = node.get('type', {}).get('qualType', '')
            self.push_frame(run, None, 'init of ' + node.get('name', 'global'))
            try:
                self.statics[key] = self._init_static(node, init, vtype)
            finally:
                self.pop_frame()
        return self.statics[key]

    def exec_for_range(self, node: dict):
        inner = [c for c in node.get('inner', []) if c]
        stmts = [c for c in inner if 'kind' in c]
        range_decl = stmts[0]['inner'][0]          # VarDecl __range
        range_init = next(c for c in range_decl.get('inner', []) if 'kind' in c)
        container = self.load(self.lv(range_init)) if range_init.get('valueCategory') != 'prvalue' \
            else self.rv(range_init)
        loop_var_stmt = next(c for c in stmts if c.get('kind') == 'DeclStmt' and c['inner'][0].get('kind')
                             in ('VarDecl', 'DecompositionDecl') and not c['inner'][0].get('name', '').startswith('__'))
        body = stmts[-1]
        var = loop_var_stmt['inner'][0]
        if isinstance(container, MapV):
            elements = [PairV(k, loc) for k, loc in sorted(container.items.items(), key=lambda kv: str(kv[0]))]
        elif isinstance(container, VecV):
            elements = list(container.items)
        else:
            raise Unsupported(f'range-for over {type(container).__name__}')
        for el in elements:
            fr = self.frame()
            if var.get('kind') == 'DecompositionDecl':
                bindings = [c for c in var.get('inner', []) if c.get('kind') == 'BindingDecl']
                if not isinstance(el, PairV) or len(bindings) != 2:
                    raise Unsupported('structured binding shape')
                fr.vars[bindings[0]['id']] = Loc(el.first, 'key')
                fr.vars[bindings[1]['id']] = el.second
            else:
                fr.vars[var['id']] = Loc(el, var.get('name', 'it')) if not isinstance(el, Loc) else el
            self.exec_stmt(body)

    # ---- expressions -------------------------------------------------------------------------------------------
    PASS = ('ExprWithCleanups', 'CXXBindTemporaryExpr', 'ParenExpr', 'ConstantExpr', 'CXXFunctionalCastExpr',
            'CXXStaticCastExpr', 'SubstNonTypeTemplateParmExpr', 'CXXConstCastExpr')

    def truth(self, v):
        if isinstance(v, Sym):
            return v.term if z3.is_bool(v.term) else v.term != 0
        if isinstance(v, PtrV):
            return v.nonnull
        if isinstance(v, FuncV):
            return self.func_nonempty(v)
        if isinstance(v, OptV):
            return v.has
        if isinstance(v, (bool, int)):
            return bool(v)
        if z3.is_expr(v):
            return v
        raise Unsupported(f'truth of {type(v).__name__}')

    def func_nonempty(self, fv: FuncV):
        if fv.kind == 'symbolic':
            return fv.target
        return fv.kind != 'empty'

    def lv(self, node: dict) -> Loc:
        """evaluate to a location"""
        kind = node.get('kind')
        if kind in self.PASS:
            return self.lv(self._only(node))
        if kind == 'ImplicitCastExpr':
            ck = node.get('castKind')
            if ck in ('NoOp', 'DerivedToBase', 'UncheckedDerivedToBase', 'ConstructorConversion',
                      'UserDefinedConversion'):
                return self.lv(self._only(node))
            raise Unsupported(f'lvalue cast {ck}')
        if kind == 'MaterializeTemporaryExpr':
            child = self._only(node)
            v = self.rv(child)
            if isinstance(v, Loc):
                return v
            if node.get('storageDuration') == 'automatic':      # lifetime extended by a reference variable
                return self.new_local(v, 'materialized (lifetime-extended)')
            return self.new_temp(v, 'materialized')
        if kind == 'DeclRefExpr':
            ref = node.get('referencedDecl', {})
            rk = ref.get('kind')
            if rk in ('VarDecl', 'ParmVarDecl', 'BindingDecl', 'DecompositionDecl'):
                for fr in (self.frame(),):
                    if ref['id'] in fr.vars:
                        return fr.vars[ref['id']]
                g = self.global_var(ref)
                if g is not None:
                    return g
                if ref.get('name') in ('defer_lock', 'try_to_lock', 'adopt_lock') and \
                        '_lock_t' in ref.get('type', {}).get('qualType', ''):
                    return Loc(LockTag(ref['name']), ref['name'])
                raise Unsupported(f'unbound variable {ref.get("name")}')
            raise Unsupported(f'lvalue DeclRefExpr to {rk}')
        if kind == 'MemberExpr':
            base = self._only(node)
            if node.get('isArrow'):
                p = self.rv(base)
                if isinstance(p, Loc):
                    p = self.load(p)
                if isinstance(p, UniquePtrV):
                    p = PtrV(p.ptr)
                if isinstance(p, MapIterV):
                    if p.entry is None:
                        raise Unsupported('dereference of end()')
                    p = PtrV(Loc(p.entry, 'map-entry'))
                if not isinstance(p, PtrV) or p.target is None:
                    raise Unsupported('-> on null / non-pointer')
                base_loc = p.target
            else:
                base_loc = self.lv(base) if base.get('valueCategory') != 'prvalue' else \
                    self.new_temp(self.rv(base), 'member-base')
            obj = self.load(base_loc)
            name = node.get('name')
            if isinstance(obj, StructV):
                if name in obj.fields:
                    loc = obj.fields[name]
                    if loc is None:
                        raise Unsupported(f'unbound reference member {name}')
                    if not base_loc.alive:
                        raise Dangling(f'member {name} of dead object {base_loc.label}')
                    return loc
                if obj.rec is not None and any(f.name == name for f in self.record_fields(obj.rec)):
                    raise UninitRead(f'{obj.type}.{name}')
                raise Unsupported(f'no field {name} in {obj.type}')
            if isinstance(obj, PairV):
                if name == 'first':
                    return Loc(obj.first, 'first')
                if name == 'second':
                    return obj.second
            raise Unsupported(f'member {name} of {type(obj).__name__}')
        if kind == 'UnaryOperator' and node.get('opcode') == '*':
            p = self.rv(self._only(node))
            if isinstance(p, UniquePtrV):
                p = PtrV(p.ptr)
            if not isinstance(p, PtrV) or p.target is None:
                raise Unsupported('deref of null')
            return p.target
        if kind in ('CallExpr', 'CXXMemberCallExpr', 'CXXOperatorCallExpr'):
            v = self.call_expr(node, want_lvalue=True)
            if isinstance(v, Loc):
                return v
            return self.new_temp(v, 'call-result')
        if kind == 'BinaryOperator' and node.get('opcode') == '=':
            lhs, rhs = [c for c in node.get('inner', []) if 'kind' in c]
            loc = self.lv(lhs)
            v = self.rv(rhs)
            if isinstance(v, Loc):
                v = self.copy_value(self.load(v))
            self.store(loc, v)
            return loc
        if kind == 'BinaryOperator' and node.get('opcode') == ',':
            lhs, rhs = [c for c in node.get('inner', []) if 'kind' in c]
            self.rv_any(lhs)
            v = self.rv_any(rhs)
            return v if isinstance(v, Loc) else self.new_temp(v, 'comma')
        if kind == 'CXXDefaultArgExpr':
            raise Unsupported('default argument as lvalue')
        raise Unsupported(f'lvalue of {kind}')

    def _only(self, node: dict) -> dict:
        inner = [c for c in node.get('inner', []) if 'kind' in c]
        if not inner:
            raise Unsupported(f'{node.get("kind")} without operand')
        return inner[0]

    def rv(self, node: dict):
        """evaluate to a value (prvalue semantics); lvalue nodes are NOT loaded implicitly"""
        kind = node.get('kind')
        cat = node.get('valueCategory')
        if kind in self.PASS:
            return self.rv(self._only(node))
        if kind == 'ImplicitCastExpr':
            ck = node.get('castKind')
            child = self._only(node)
            if ck == 'LValueToRValue':
                return self.copy_scalar(self.load(self.lv(child)))
            if ck in ('NoOp', 'ConstructorConversion', 'UserDefinedConversion', 'FunctionToPointerDecay',
                      'ArrayToPointerDecay', 'IntegralCast', 'DerivedToBase', 'UncheckedDerivedToBase',
                      'BuiltinFnToFnPtr', 'IntegralToBoolean'):
                return self.rv(child) if child.get('valueCategory') == 'prvalue' else self._lv_as_rv(child)
            if ck == 'NullToPointer':
                return PtrV(None)
            if ck == 'PointerToBoolean':
                return self.truth(self.rv(child))
            raise Unsupported(f'cast {ck}')
        if kind == 'MaterializeTemporaryExpr':
            return self.lv(node)
        if cat in ('lvalue', 'xvalue') and kind in ('DeclRefExpr', 'MemberExpr'):
            if kind == 'DeclRefExpr':
                ref = node.get('referencedDecl', {})
                if ref.get('kind') in ('FunctionDecl', 'CXXMethodDecl'):
                    return FuncRef(ref.get('name'), ref.get('id'), node)
            return self.lv(node)
        if kind == 'DeclRefExpr':
            ref = node.get('referencedDecl', {})
            rk = ref.get('kind')
            if rk == 'EnumConstantDecl':
                key = (self.frame().run, ref['id'])
                if key in self.prog.enum_consts:
                    return self.prog.enum_consts[key][1]
                raise Unsupported(f'unknown enum constant {ref.get("name")}')
            if rk in ('FunctionDecl', 'CXXMethodDecl'):
                return FuncRef(ref.get('name'), ref.get('id'), node)
            return self.lv(node)
        if kind == 'MemberExpr':
            # bound member function
            base = self._only(node)
            if node.get('isArrow'):
                p = self.rv(base)
                if isinstance(p, UniquePtrV):
                    p = PtrV(p.ptr)
                if not isinstance(p, PtrV) or p.target is None:
                    raise Unsupported('-> on null')
                base_loc = p.target
            else:
                base_loc = self.lv(base) if base.get('valueCategory') != 'prvalue' else \
                    self.new_temp(self.rv(base), 'member-base')
            return BoundMethod(base_loc, node.get('name'), node)
        if kind == 'CXXThisExpr':
            return PtrV(self.frame().this_ptr)
        if kind == 'StringLiteral':
            return self.unquote(node.get('value', '""'))
        if kind == 'IntegerLiteral':
            return int(node.get('value', '0'))
        if kind == 'CXXBoolLiteralExpr':
            return bool(node.get('value'))
        if kind == 'CXXNullPtrLiteralExpr':
            return PtrV(None)
        if kind == 'UnaryOperator':
            op = node.get('opcode')
            child = self._only(node)
            if op == '!':
                t = self.truth(self.rv(child))
                return (not t) if isinstance(t, bool) else Sym(z3.Not(t))
            if op == '&':
                return PtrV(self.lv(child))
            if op == '*':
                return self.lv(node)
            raise Unsupported(f'unary {op}')
        if kind == 'BinaryOperator':
            op = node.get('opcode')
            lhs, rhs = [c for c in node.get('inner', []) if 'kind' in c]
            if op == '=':
                return self.lv(node)
            if op in ('==', '!='):
                res = self.equal(self.rv(lhs), self.rv(rhs))
                if op == '!=':
                    res = (not res) if isinstance(res, bool) else z3.Not(res)
                return res if isinstance(res, bool) else Sym(res)
            if op in ('&&', '||'):
                lt = self.truth(self.rv(lhs))
                if op == '&&':
                    if not self.decide(lt):
                        return False
                    return self.truth(self.rv(rhs))
                if self.decide(lt):
                    return True
                return self.truth(self.rv(rhs))
            if op == ',':
                self.rv_any(lhs)
                return self.rv_any(rhs)
            if op == '+':
                a, b = self.rv(lhs), self.rv(rhs)
                if isinstance(a, Loc):
                    a = self.load(a)
                if isinstance(b, Loc):
                    b = self.load(b)
                return a + b
            raise Unsupported(f'binary {op}')
        if kind in ('CXXConstructExpr', 'CXXTemporaryObjectExpr'):
            return self.construct_expr(node)
        if kind == 'InitListExpr':
            return self.init_list(node)
        if kind == 'LambdaExpr':
            return self.make_closure(node)
        if kind in ('CallExpr', 'CXXMemberCallExpr', 'CXXOperatorCallExpr'):
            return self.call_expr(node, want_lvalue=False)
        if kind == 'CXXThrowExpr':
            operand = self._only(node)
            v = self.rv(operand)
            tname = norm_type(operand.get('type', {}).get('qualType', 'exception'))
            what = v.what if isinstance(v, CppExc) else str(v)
            raise CppThrow(tname, what)
        if kind == 'CXXDefaultArgExpr':
            return None
        if kind == 'ConditionalOperator':
            c, a, b = [x for x in node.get('inner', []) if 'kind' in x]
            return self.rv(a) if self.decide(self.truth(self.rv(c))) else self.rv(b)
        if kind == 'ImplicitValueInitExpr':
            return self.default_value(node.get('type', {}).get('qualType', ''))
        if kind == 'CXXScalarValueInitExpr':
            return 0
        raise Unsupported(f'rvalue of {kind}')

    def rv_any(self, node):
        return self.lv(node) if node.get('valueCategory') in ('lvalue', 'xvalue') else self.rv(node)

    def _lv_as_rv(self, node):
        if node.get('kind') == 'StringLiteral':
            return self.unquote(node.get('value', '""'))
        if node.get('kind') == 'DeclRefExpr':
            ref = node.get('referencedDecl', {})
            if ref.get('kind') in ('FunctionDecl', 'CXXMethodDecl', 'CXXConversionDecl'):
                return FuncRef(ref.get('name'), ref.get('id'), node)
        return self.lv(node)

    def copy_scalar(self, v):
        return v

    @staticmethod
    def unquote(text: str) -> str:
        if text.startswith('"') and text.endswith('"'):
            body = text[1:-1]
            return body.encode('latin-1', 'backslashreplace').decode('unicode_escape')
        return text

    def equal(self, a, b):
        va = self.load(a) if isinstance(a, Loc) else a
        vb = self.load(b) if isinstance(b, Loc) else b
        if isinstance(va, MapIterV) and isinstance(vb, MapIterV):
            return va.entry is vb.entry or (va.entry is not None and vb.entry is not None
                                            and va.entry.first == vb.entry.first)
        return self._equal(a, b)

    def _equal(self, a, b):
        if isinstance(a, Loc):
            a = self.load(a)
        if isinstance(b, Loc):
            b = self.load(b)
        if isinstance(a, PtrV) and isinstance(b, PtrV):
            if b.target is None and b.nonnull is False:
                return (not a.nonnull) if isinstance(a.nonnull, bool) else z3.Not(a.nonnull)
            if a.target is None and a.nonnull is False:
                return (not b.nonnull) if isinstance(b.nonnull, bool) else z3.Not(b.nonnull)
            return a.target is b.target
        ta = a.term if isinstance(a, Sym) else a
        tb = b.term if isinstance(b, Sym) else b
        if z3.is_expr(ta) or z3.is_expr(tb):
            return ta == tb
        return a == b

    # ---- construction expressions -------------------------------------------------------------------------------
    def args_of(self, nodes: List[dict]) -> List[Any]:
        out = []
        for n in nodes:
            if n.get('kind') == 'CXXDefaultArgExpr':
                continue
            if n.get('valueCategory') in ('lvalue', 'xvalue'):
                out.append(self.lv(n))
            else:
                out.append(self.rv(n))
        return out

    def construct_expr(self, node: dict):
        t = node.get('type', {}).get('desugaredQualType') or node.get('type', {}).get('qualType', '')
        kind = type_kind(t)
        arg_nodes = [c for c in node.get('inner', []) if 'kind' in c]
        # arguments are evaluated exactly once
        _args_cache = self.args_of(arg_nodes)
        if len(_args_cache) == 1 and kind in ('string', 'record', 'scalar', 'std-other'):
            # copy/move construction of opaque symbolic data (event arguments)
            pv = self.load(_args_cache[0]) if isinstance(_args_cache[0], Loc) else _args_cache[0]
            if isinstance(pv, LockTag):
                return pv
            if isinstance(pv, Sym):
                return pv
        return self._construct_with_args(node, t, kind, arg_nodes, _args_cache)

    def _construct_with_args(self, node, t, kind, arg_nodes, evaluated):
        return self._construct_dispatch(node, t, kind, [c for c in arg_nodes
                                                        if c.get('kind') != 'CXXDefaultArgExpr'], evaluated)

    def _construct_dispatch(self, node, t, kind, arg_nodes, args):
        if kind == 'string':
            if not args:
                return ''
            a = args[0]
            if isinstance(a, Loc):
                a = self.load(a)
            if not isinstance(a, str):
                raise Unsupported(f'string from {type(a).__name__}')
            return a
        if kind == 'function':
            if not args:
                return FuncV('empty')
            return self.to_funcv(args[0])
        if kind in ('unique_lock', 'shared_lock'):
            if not args:
                return UniqueLockV(None, False, shared=(kind == 'shared_lock'))
            src = args[0]
            val = self.load(src) if isinstance(src, Loc) else src
            if isinstance(val, MutexV):
                ul = UniqueLockV(src, False, shared=(kind == 'shared_lock'))
                tag = None
                if len(args) > 1:
                    tag = self.load(args[1]) if isinstance(args[1], Loc) else args[1]
                    if not isinstance(tag, LockTag):
                        raise Unsupported('unique_lock(mutex, ' + type(tag).__name__ + ')')
                if tag is None:
                    self.lock(ul)
                elif tag.name == 'adopt_lock':
                    ul.owns = True
                elif tag.name == 'try_to_lock':
                    if self.can_take(val, ul.shared, self.tid()):
                        self.lock(ul, wait=False)
                return ul
            if isinstance(val, UniqueLockV):          # move construction
                out = UniqueLockV(val.mutex, val.owns, val.shared)
                val.owns = False
                val.mutex = None
                return out
            raise Unsupported('unique_lock from ' + type(val).__name__)
        if kind == 'unique_ptr':
            if len(args) == 1:
                src = self.load(args[0]) if isinstance(args[0], Loc) else args[0]
                if isinstance(src, UniquePtrV):        # move
                    out = UniquePtrV(src.ptr, src.deleter)
                    src.ptr = None
                    return out
            if len(args) == 2:
                p = args[0]
                d = args[1]
                if isinstance(d, Loc):
                    dv = self.load(d)
                    d = self.move_struct(dv)
                return UniquePtrV(p.target if isinstance(p, PtrV) else None, d)
            raise Unsupported('unique_ptr construction')
        if kind == 'optional':
            o = OptV()
            if args:
                a = self.load(args[0]) if isinstance(args[0], Loc) else args[0]
                if isinstance(a, OptV):
                    return self.copy_value(a)
                o.has, o.val = True, a
            return o
        if kind == 'refwrap':
            a = args[0]
            if isinstance(a, Loc):
                inner = self.load(a)
                if isinstance(inner, RefWrapV):
                    return inner
                return RefWrapV(a)
            return a
        if kind in ('map', 'vector', 'mutex'):
            if args:
                a = self.load(args[0]) if isinstance(args[0], Loc) else args[0]
                return self.copy_value(a)
            return self.default_value(t)
        if kind == 'locator':
            if not args:
                return LocatorV()
            a = self.load(args[0]) if isinstance(args[0], Loc) else args[0]
            if isinstance(a, LocatorV):
                if arg_nodes[0].get('valueCategory') == 'xvalue':
                    return a                        # move: the very object
                return self.copy_value(a)
            raise Unsupported('locator from ' + type(a).__name__)
        if kind in ('pump', 'runtime'):
            return self.default_value(t, self._ctx_label())
        if kind == 'std-other':
            base = norm_type(t)
            if base in ('std::runtime_error', 'std::logic_error'):
                msg = args[0] if args else ''
                if isinstance(msg, Loc):
                    msg = self.load(msg)
                return CppExc(base, str(msg))
            if base.startswith('std::allocator'):
                return None
            raise Unsupported(f'construction of {t}')
        if kind == 'record':
            rec = self.prog.record_for_type(t)
            if rec is None:
                if 'lambda' in t:
                    # copy/move of a closure object
                    a = self.load(args[0]) if isinstance(args[0], Loc) else args[0]
                    return a
                raise Unsupported(f'no layout for {t}')
            if rec.name == 'binding_error':
                meta = self.load(args[0]) if isinstance(args[0], Loc) else args[0]
                msg = self.load(args[1]) if isinstance(args[1], Loc) else args[1]
                return CppExc('dzn::binding_error', str(msg))
            # copy / move construction from an object of the same record
            if len(args) == 1 and isinstance(args[0], Loc):
                src = self.load(args[0])
                if isinstance(src, StructV) and src.rec is rec:
                    if arg_nodes[0].get('valueCategory') == 'xvalue':
                        return self.move_struct(src)
                    return self.copy_value(src)
                if isinstance(src, StructV) and src.rec is not None and self.derives(src.rec, rec):
                    out = StructV(t, rec)          # slicing copy: base-class part only
                    for fld in self.record_fields(rec):
                        out.fields[fld.name] = Loc(self.copy_value(self.load(src.fields[fld.name])), fld.name)
                    return out
            if len(args) == 1 and isinstance(args[0], StructV) and args[0].rec is rec:
                return args[0]
            return self.construct_record(rec, t, node, args, self._ctx_label())
        if kind == 'scalar':
            return args[0] if args else 0
        raise Unsupported(f'construct {t}')

    def derives(self, rec: Record, base: Record) -> bool:
        for b in rec.bases:
            brec = self.prog.record_for_type(b)
            if brec is base or (brec is not None and self.derives(brec, base)):
                return True
        return False

    def _ctx_label(self) -> str:
        return self.frame().label if self.frames else ''

    def move_struct(self, src: 'StructV') -> 'StructV':
        out = StructV(src.type, src.rec)
        for k, loc in src.fields.items():
            v = self.load(loc)
            if isinstance(v, UniqueLockV):
                nv = UniqueLockV(v.mutex, v.owns, v.shared)
                v.owns, v.mutex = False, None
                out.fields[k] = Loc(nv, k)
            elif isinstance(v, StructV):
                out.fields[k] = Loc(self.move_struct(v), k)
            else:
                out.fields[k] = Loc(self.copy_value(v), k)
        return out

    def to_funcv(self, a) -> FuncV:
        if isinstance(a, Loc):
            a = self.load(a)
        if isinstance(a, FuncV):
            return self.copy_value(a)
        if isinstance(a, Closure):
            return FuncV('closure', a)
        if isinstance(a, RefWrapV):
            return FuncV('ref', a.target)
        if isinstance(a, External):
            return FuncV('external', a)
        raise Unsupported(f'std::function from {type(a).__name__}')

    def init_list(self, node: dict):
        t = node.get('type', {}).get('desugaredQualType') or node.get('type', {}).get('qualType', '')
        kind = type_kind(t)
        items = [c for c in node.get('inner', []) if 'kind' in c]
        if kind == 'record':
            rec = self.prog.record_for_type(t)
            if rec is None:
                rec = self._anon_record_for(t)
            if rec is None:
                raise Unsupported(f'init list for {t}')
            sv = StructV(t, rec)
            fields = self.record_fields(rec)
            for i, fld in enumerate(fields):
                if i < len(items):
                    it = items[i]
                    if fld.type.rstrip().endswith('&'):
                        sv.fields[fld.name] = self.lv(it)
                        continue
                    v = self.rv(it) if it.get('valueCategory') == 'prvalue' else \
                        self.copy_value(self.load(self.lv(it)))
                    if isinstance(v, Loc):
                        v = self.copy_value(self.load(v))
                    if type_kind(fld.type) == 'function' and not isinstance(v, FuncV):
                        v = self.to_funcv(v)
                    sv.fields[fld.name] = Loc(v, fld.name)
                elif fld.anon_record is not None:
                    sub = StructV(fld.type, fld.anon_record)
                    self.default_init_fields(fld.anon_record, sub, None, set())
                    sv.fields[fld.name] = Loc(sub, fld.name)
                else:
                    sv.fields[fld.name] = Loc(self.default_value(fld.type, fld.name), fld.name)
            return sv
        if kind == 'function':
            return self.to_funcv(self.rv(items[0])) if items else FuncV('empty')
        if kind == 'string':
            v = self.rv(items[0]) if items else ''
            return self.load(v) if isinstance(v, Loc) else v
        if kind in ('scalar', 'pointer'):
            return self.rv(items[0]) if items else self.default_value(t)
        if kind == 'vector' and not items:
            return VecV()
        raise Unsupported(f'init list of {t}')

    def _anon_record_for(self, t: str) -> Optional[Record]:
        m = re.search(r'unnamed struct at ([^)]+)\)', t)
        if not m:
            return None
        where = m.group(1)
        line_col = where.split(':')[-2:]
        for rec in self.prog.record_by_id.values():
            loc = rec.node.get('loc', {})
            if not rec.name and str(loc.get('line')) == line_col[0] and str(loc.get('col')) == line_col[1]:
                return rec
        # line may be inherited from the previous node in clang's JSON: match by column + field set
        return None

    def make_closure(self, node: dict) -> Closure:
        inner = [c for c in node.get('inner', []) if 'kind' in c]
        rec = inner[0]
        if rec.get('kind') != 'CXXRecordDecl':
            raise Unsupported('lambda without closure class')
        fields = [c for c in rec.get('inner', []) if c.get('kind') == 'FieldDecl']
        call_op = None
        for c in rec.get('inner', []):
            if c.get('kind') == 'CXXMethodDecl' and c.get('name') == 'operator()':
                call_op = c
            elif c.get('kind') == 'FunctionTemplateDecl' and c.get('name') == 'operator()':
                insts = [x for x in c.get('inner', []) if x.get('kind') == 'CXXMethodDecl'
                         and any(y.get('kind') == 'CompoundStmt' for y in x.get('inner', []))]
                # generic lambda: use the instantiation if there is exactly one, else the pattern
                call_op = insts[-1] if insts else next((x for x in c.get('inner', [])
                                                        if x.get('kind') == 'CXXMethodDecl'), None)
        if call_op is None:
            raise Unsupported('lambda without operator()')
        params = [c for c in call_op.get('inner', []) if c.get('kind') == 'ParmVarDecl']
        body = next((c for c in call_op.get('inner', []) if c.get('kind') == 'CompoundStmt'), None)
        if body is None:
            raise Unsupported('lambda without body')
        init_nodes = inner[1:1 + len(fields)]
        if len(init_nodes) != len(fields):
            raise Unsupported('lambda captures/initialisers mismatch')
        captures = {}
        this_ptr = self.frame().this_ptr
        by_ref, by_val = [], []
        for fld, init in zip(fields, init_nodes):
            ftype = fld.get('type', {}).get('qualType', '')
            if init.get('kind') == 'CXXThisExpr':
                continue
            ref = self._find_declref(init)
            if ref is None:
                raise Unsupported('capture without a variable')
            key = ref['referencedDecl']['id']
            name = ref['referencedDecl'].get('name', '?')
            if ftype.rstrip().endswith('&'):
                captures[key] = ('ref', self.lv(ref))
                by_ref.append(name)
            else:
                v = self.rv(init) if init.get('valueCategory') == 'prvalue' else self.load(self.lv(init))
                if isinstance(v, Loc):
                    v = self.load(v)
                captures[key] = ('val', Loc(self.copy_value(v), f'capture:{name}'))
                by_val.append(name)
        loc = node.get('range', {}).get('begin', {})
        label = f'lambda@{loc.get("line", "?")}'
        clo = Closure(node, self.frame().run, captures, this_ptr, params, body, label)
        clo.by_ref_names, clo.by_val_names = by_ref, by_val
        return clo

    def _find_declref(self, node: dict) -> Optional[dict]:
        if node.get('kind') == 'DeclRefExpr':
            return node
        for c in node.get('inner', []):
            if 'kind' in c:
                r = self._find_declref(c)
                if r is not None:
                    return r
        return None

    # ---- calls -------------------------------------------------------------------------------------------------------
    def call_expr(self, node: dict, want_lvalue: bool):
        from . import intrinsics
        return intrinsics.dispatch(self, node, want_lvalue)


class CppExc:
    """a C++ exception object value"""
    def __init__(self, type_name: str, what: str):
        self.type_name, self.what = type_name, what

    def __str__(self):
        return self.what
