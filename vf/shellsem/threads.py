"""Threaded ShellSem: several threads of control over ONE abstract machine, scheduled cooperatively.

Every thread is a real Python thread, but exactly one runs at a time (baton passing); control returns
to the scheduler only at *yield points*:
  - observable events: an external handler is about to run, a log callback (the selector logs at the
    entry of Index/Select/Deselect), start/end of a script step;
  - blocking points: taking the dispatcher (dzn::shell / a posted closure) and taking a std::mutex.
Between two yield points a thread runs alone, so the code between them is an atomic block.  A schedule
is the sequence of threads chosen at the yield points; schedules are explored by re-execution under
decision prefixes (explore.py) with a bound on the number of preemptions.

Model of the dispatcher: a closure passed to dzn::shell or posted to the pump runs *inline on the
calling thread while that thread holds the dispatcher token* — the dispatcher serialises closures, which
is all the generated code relies on.  The same model is used by the threaded replay driver (mock pump
with VF_THREADED).
"""
import threading
from typing import Any, Callable, Dict, List, Optional, Tuple

from . import machine as M
from .program import Unsupported


class ThreadAbort(BaseException):
    """raised inside machine threads to unwind them when a run is abandoned"""


class TThread:
    def __init__(self, name: str, fn: Callable[[], None]):
        self.name, self.fn = name, fn
        self.sem = threading.Semaphore(0)
        self.done = False
        self.blocked: Optional[Callable[[], bool]] = None     # enabled iff None or blocked() is True
        self.error: Optional[BaseException] = None
        self.thread: Optional[threading.Thread] = None
        self.last_event: Tuple = ('start',)


class Sched:
    def __init__(self, choose: Callable[[List[str], Optional[str]], str]):
        self.threads: Dict[str, TThread] = {}
        self.order: List[str] = []
        self.current: Optional[str] = None
        self.back = threading.Semaphore(0)
        self.choose = choose
        self.schedule: List[Tuple[str, Tuple]] = []      # (thread, event it stopped at)
        self.abort = False
        self.steps = 0

    def spawn(self, name: str, fn: Callable[[], None]):
        t = TThread(name, fn)
        self.threads[name] = t
        self.order.append(name)

    # ---- called on machine threads -------------------------------------------------------------------------
    def yield_point(self, event: Tuple, blocked: Optional[Callable[[], bool]] = None):
        t = self.threads[self.current]
        t.last_event = event
        t.blocked = blocked
        self.back.release()
        t.sem.acquire()
        if self.abort:
            raise ThreadAbort()
        t.blocked = None

    def _body(self, t: TThread):
        t.sem.acquire()
        try:
            if not self.abort:
                t.fn()
        except ThreadAbort:
            pass
        except BaseException as exc:  # pylint: disable=broad-except
            t.error = exc
        t.done = True
        t.last_event = ('end',)
        self.back.release()

    # ---- called on the controlling thread ----------------------------------------------------------------------
    def enabled(self) -> List[str]:
        out = []
        for name in self.order:
            t = self.threads[name]
            if t.done:
                continue
            if t.blocked is None or t.blocked():
                out.append(name)
        return out

    def run(self, max_steps: int = 4000) -> str:
        """-> 'ok' | 'deadlock'; exceptions of threads are re-raised"""
        for name in self.order:
            t = self.threads[name]
            t.thread = threading.Thread(target=self._body, args=(t,), daemon=True)
            t.thread.start()
        result = 'ok'
        try:
            while True:
                en = self.enabled()
                if not en:
                    if all(t.done for t in self.threads.values()):
                        break
                    result = 'deadlock'
                    break
                nxt = self.choose(en, self.current if self.current in en else None)
                self.current = nxt
                self.steps += 1
                if self.steps > max_steps:
                    raise Unsupported('schedule does not terminate')
                t = self.threads[nxt]
                t.sem.release()
                self.back.acquire()
                self.schedule.append((nxt, t.last_event))
                if t.error is not None:
                    raise t.error
        finally:
            self.abort = True
            for t in self.threads.values():
                if not t.done:
                    t.sem.release()
            for t in self.threads.values():
                if t.thread is not None:
                    t.thread.join(timeout=5)
        return result


class TMachine(M.Machine):
    """Machine whose frame stack is per thread and whose blocking primitives yield to the scheduler."""

    def __init__(self, prog, oracle=None):
        self._stacks: Dict[str, List[M.Frame]] = {'main': []}
        self.sched: Optional[Sched] = None
        super().__init__(prog, oracle)
        self.token_holder: Optional[str] = None
        self.token_depth = 0
        self.held: Dict[str, List[M.Loc]] = {}
        self.watch: Dict[int, str] = {}
        self.accesses: List[Tuple[str, str, bool, Tuple[int, ...], bool]] = []
        self.recording = False
        # happens-before (vector clocks): per thread, per synchronisation object; last accesses per location
        self.vc: Dict[str, Dict[str, int]] = {}
        self.sync_vc: Dict[Any, Dict[str, int]] = {}
        self.last_write: Dict[str, Tuple[str, int]] = {}
        self.last_reads: Dict[str, Dict[str, int]] = {}
        self.hb_races: List[str] = []

    def _init_static(self, node, init, vtype):
        loc = super()._init_static(node, init, vtype)
        if not node.get('tls'):
            self.watch[id(loc)] = 'static variable ' + str(node.get('name'))      # shared by construction
        return loc

    # ---- happens-before ---------------------------------------------------------------------------------------
    def _clock(self, t: str) -> Dict[str, int]:
        if t not in self.vc:
            self.vc[t] = {t: 1}
        return self.vc[t]

    def hb_acquire(self, obj_id):
        me = self._clock(self.tid())
        for t, c in self.sync_vc.get(obj_id, {}).items():
            if c > me.get(t, 0):
                me[t] = c

    def hb_release(self, obj_id):
        t = self.tid()
        me = self._clock(t)
        dst = self.sync_vc.setdefault(obj_id, {})
        for k, c in me.items():
            if c > dst.get(k, 0):
                dst[k] = c
        me[t] = me.get(t, 0) + 1

    def hb_access(self, name: str, write: bool):
        t = self.tid()
        if t == 'main':
            return
        me = self._clock(t)
        lw = self.last_write.get(name)
        if lw is not None and lw[0] != t and lw[1] > me.get(lw[0], 0):
            self.hb_races.append(f'{name}: write by {lw[0]} and {"write" if write else "read"} by {t} are concurrent')
        if write:
            for rt, rc in self.last_reads.get(name, {}).items():
                if rt != t and rc > me.get(rt, 0):
                    self.hb_races.append(f'{name}: read by {rt} and write by {t} are concurrent')
            self.last_write[name] = (t, me[t])
            self.last_reads[name] = {}
        else:
            self.last_reads.setdefault(name, {})[t] = me[t]

    # frames per thread
    @property
    def frames(self):
        return self._stacks.setdefault(self.tid(), [])

    @frames.setter
    def frames(self, value):
        self._stacks[self.tid()] = value

    def tid(self) -> str:
        if self.sched is not None and self.sched.current is not None and \
                threading.current_thread() is not threading.main_thread():
            return self.sched.current
        return 'main'

    def yield_event(self, event: Tuple, blocked=None):
        if self.sched is not None and self.tid() != 'main':
            self.sched.yield_point(event, blocked)

    # ---- mutex ------------------------------------------------------------------------------------------------
    def lock(self, ul: M.UniqueLockV, wait: bool = True):
        mloc = ul.mutex
        m: M.MutexV = self.load(mloc)
        me = self.tid()
        if wait:
            if m.locked and m.owner == me and m.flavour != 'recursive':
                raise M.Deadlock('a thread takes a std::mutex it already holds')
            if ul.shared and me in m.readers:
                raise M.Deadlock('a thread takes a shared lock on a mutex it already holds shared')
            if not ul.shared and me in m.readers:
                raise M.Deadlock('a thread takes the exclusive lock on a mutex it holds shared')
            self.yield_event(('lock-wait',), blocked=lambda: self.can_take(m, ul.shared, me))
        if not self.can_take(m, ul.shared, me):
            raise M.Deadlock('mutex still locked after being scheduled')
        self.take(m, ul.shared, me)
        ul.owns = True
        # happens-before: everybody synchronises with earlier exclusive holders; an exclusive holder also
        # with earlier shared holders (two shared holders do not synchronise with each other)
        self.hb_acquire(('w', id(mloc)))
        if not ul.shared:
            self.hb_acquire(('r', id(mloc)))
        self.held.setdefault(me, []).append(mloc)

    def unlock(self, ul: M.UniqueLockV):
        mloc = ul.mutex
        m: M.MutexV = self.load(mloc)
        me = self.tid()
        self.give(m, ul.shared, me)
        ul.owns = False
        self.hb_release(('r', id(mloc)) if ul.shared else ('w', id(mloc)))
        if mloc in self.held.get(me, []):
            self.held[me].remove(mloc)
        # no yield here: until its next synchronisation the thread only touches thread-local state, so a
        # switch right after the unlock is equivalent to a switch at that next yield point

    # ---- dispatcher ----------------------------------------------------------------------------------------------
    def _with_token(self, pump: M.PumpV, fn):
        me = self.tid()
        if self.token_holder == me:
            self.token_depth += 1
            try:
                return fn()
            finally:
                self.token_depth -= 1
        if any(True for _ in self.held.get(me, [])):
            self.lock_then_block = True           # blocking on the dispatcher while holding a mutex
        self.yield_event(('dispatcher-wait',), blocked=lambda: self.token_holder is None)
        self.token_holder = me
        self.hb_acquire(-1)
        pump.in_dispatcher += 1
        try:
            return fn()
        finally:
            pump.in_dispatcher -= 1
            pump.executed += 1
            self.hb_release(-1)
            self.token_holder = None

    lock_then_block = False

    def do_shell(self, pump: M.PumpV, fv: M.FuncV):
        if self.sched is None or self.tid() == 'main':
            return super().do_shell(pump, fv)
        return self._with_token(pump, lambda: self.call_funcv(fv, [], 'dzn::shell'))

    def run_on_dispatcher(self, pump: M.PumpV, fn):
        """a closure the dispatcher runs on its own behalf (component raising an out-event)"""
        return self._with_token(pump, fn)

    events = None           # list shared with the scenario: observable events (thread, tag) in order

    def before_external(self, ext):
        # handlers that run while this thread holds the dispatcher are inside an atomic block already
        if self.token_holder != self.tid():
            self.yield_event(('ext', ext.name))

    def on_log(self, level: str, msg: str):
        if self.events is not None:
            self.events.append((self.tid(), f'log.{level}:{msg}'))

    # ---- shared state -----------------------------------------------------------------------------------------------
    def note_access(self, loc, write: bool):
        if not self.recording or id(loc) not in self.watch:
            return
        me = self.tid()
        self.hb_access(self.watch[id(loc)], write)
        self.accesses.append((self.watch[id(loc)], me, write,
                              tuple(sorted(id(x) for x in self.held.get(me, []))),
                              self.token_holder == me))

    def load(self, loc):
        if self.recording and isinstance(loc, M.Loc) and id(loc) in self.watch:
            self.note_access(loc, False)
        return super().load(loc)

    def store(self, loc, v):
        if self.recording and id(loc) in self.watch:
            self.note_access(loc, True)
        return super().store(loc, v)

    def races(self) -> List[str]:
        """lockset discipline: two accesses to one watched location by different threads, at least one a
        write, that share neither a mutex nor the dispatcher"""
        out = []
        by_loc: Dict[str, List] = {}
        for a in self.accesses:
            by_loc.setdefault(a[0], []).append(a)
        for name, accs in by_loc.items():
            for i, a in enumerate(accs):
                for b in accs[i + 1:]:
                    if a[1] == b[1] or not (a[2] or b[2]):
                        continue
                    if set(a[3]) & set(b[3]) or (a[4] and b[4]):
                        continue
                    out.append(f'{name}: {"write" if a[2] else "read"} by {a[1]} and '
                               f'{"write" if b[2] else "read"} by {b[1]} without a common lock')
        return sorted(set(out))
