"""The same scenarios as scenarios.py, executed on the g++-compiled program with concrete values, and
the same property oracles evaluated on the observed trace.  Used to validate the abstract machine
against the implementation and to replay findings before they are reported."""
from typing import Dict, List, Optional, Tuple

from .. import family as fam
from . import cppdriver as D
from .scenarios import expected_semantics, services_for

from dznpy.adv_shell.common import FacilitiesOrigin

RES = {name: i for i, name in enumerate(fam.RES_FIELDS)}


def _services_bool(origin) -> Dict[str, bool]:
    return {k: True for k in services_for(origin)}


def routing_plan(info, pc) -> List[Dict]:
    """The invocations of the routing scenario, in the order scenarios.routing performs them."""
    m: fam.Model = info['model']
    sems = expected_semantics(info, pc)
    mc = pc.multiclient
    plan = []
    for prt in m.ports:
        if prt.injected:
            continue
        itf = next(i for i in m.itfs if i.name == prt.itf)
        is_mc = mc is not None and prt.name == mc.port_name
        clients = ['c0', 'c1'] if is_mc else [None]
        for ev in itf.events:
            user_calls = (prt.direction == 'provides') == (ev.direction == 'in')
            if user_calls:
                for cl in clients:
                    if is_mc and ev.name in (mc.claim_event_name, mc.release_event_name):
                        continue
                    plan.append({'prt': prt, 'ev': ev, 'client': cl, 'user_calls': True,
                                 'tag': f'{prt.name}.{ev.direction}.{ev.name}' + (f'@{cl}' if cl else ''),
                                 'expect_side': 'comp', 'sem': sems[prt.name], 'inbound': True})
            elif not is_mc:
                plan.append({'prt': prt, 'ev': ev, 'client': None, 'user_calls': False,
                             'tag': f'{prt.name}.{ev.direction}.{ev.name}(component)',
                             'expect_side': 'user', 'sem': sems[prt.name], 'inbound': False})
    return plan


def run_routing(info, pc, prog_dir: str) -> Tuple[List[Dict], List[str], str]:
    """-> (per-invocation summaries, findings as text, raw output)"""
    origin = info['case'].origin
    mc = pc.multiclient
    sc = D.Script(info, mc, origin == FacilitiesOrigin.CREATE, _services_bool(origin))
    sc.prologue()
    m: fam.Model = info['model']
    sc.bind_all(['c0', 'c1'])
    plan = routing_plan(info, pc)
    for step in plan:
        prt, ev = step['prt'], step['ev']
        itf_t = f'{D._ns(m)}{prt.itf}'
        if step['user_calls']:
            slot = f'{sc.accessor_expr(prt, step["client"])}.{ev.direction}.{ev.name}'
        else:
            slot = f'g_enc(shell).{prt.name}.{ev.direction}.{ev.name}'
        sc.invoke(slot, ev, step['tag'], itf_t)
    rc, out = D.compile_and_run(prog_dir, info, sc.source(), 'drv_routing')
    if rc == 2:
        return [], [f'compile/run failure: {out[:400]}'], out
    blocks = D.parse_trace(out)[1:]
    findings, summaries = [], []
    for step, blk in zip(plan, blocks):
        summaries.append({'tag': step['tag'],
                          'calls': [(c['side'], c['port'], c['event'], c['ctx']) for c in blk['calls']]})
        findings += judge_block(step, blk)
    if len(blocks) != len(plan):
        findings.append(f'driver produced {len(blocks)} blocks for {len(plan)} steps')
    return summaries, findings, out


def judge_block(step: Dict, blk: Dict) -> List[str]:
    """The routing / context oracle on a concrete trace block (mirrors scenarios.check_event)."""
    prt, ev, tag, sem = step['prt'], step['ev'], step['tag'], step['sem']
    out = []
    if blk['throw']:
        return [f'{tag}: event is not routed (call throws {blk["throw"]})']
    deferred = step['inbound'] and sem == 'MTS' and ev.direction == 'out' and prt.direction == 'requires'
    calls = blk['calls']
    if deferred:
        if any(not c['after_return'] for c in calls):
            out.append(f'{tag}: MTS requires out-event ran synchronously instead of being queued on the dispatcher')
        elif blk['queue'] != 1:
            out.append(f'{tag}: MTS requires out-event queued {blk["queue"]} closures on the dispatcher (expected 1)')
    if len(calls) != 1:
        out.append(f'{tag}: expected exactly one delivery, observed {len(calls)}')
        return out
    c = calls[0]
    if (c['side'], c['port'], c['event']) != (step['expect_side'], prt.name, ev.name):
        out.append(f'{tag}: delivered to {c["side"]}.{c["port"]}.{c["event"]} instead of '
                   f'{step["expect_side"]}.{prt.name}.{ev.name}')
        return out
    wi = 0
    for i, (fname, fdir, _ft) in enumerate(ev.formals):
        reads = fdir in ('in', 'inout') or ev.direction == 'out'
        if reads and (i >= len(c['args']) or c['args'][i] != blk['args'].get(i)):
            out.append(f'{tag}: argument {i} ({fname}) arrives changed')
        if fdir != 'in' and ev.direction == 'in':
            if wi >= len(blk['wrote']) or blk['outs'].get(i) != blk['wrote'][wi]:
                out.append(f'{tag}: out/inout argument {i} ({fname}) is not carried back to the caller')
            wi += 1
    if ev.reply != 'void':
        if not blk['replies'] or blk['ret'] != blk['replies'][0]:
            out.append(f'{tag}: reply value is not the callee\'s reply')
    if step['inbound']:
        if sem == 'MTS' and not c['ctx']:
            out.append(f'{tag}: MTS inbound event executed outside the dispatcher context')
        if sem == 'STS' and (c['ctx'] or blk['drained'] or blk['queue']):
            out.append(f'{tag}: STS event passed through the dispatcher')
    return out


def run_mc_history(info, pc, prog_dir: str, pre: Optional[str], op: str, actor: Optional[str],
                   clients: List[str], claim_reply: Optional[int] = None, asan: bool = False) -> Tuple[Dict[str, List[str]], str]:
    """Run [pre claims (granted)] ; op ; every component out-event.  -> {out-event: [sides delivered]}"""
    origin = info['case'].origin
    mc = pc.multiclient
    m: fam.Model = info['model']
    prt = next(p for p in m.ports if p.name == mc.port_name)
    itf = next(i for i in m.itfs if i.name == prt.itf)
    claim = next(e for e in itf.events if e.name == mc.claim_event_name)
    release = next(e for e in itf.events if e.name == mc.release_event_name)
    grant = RES[mc.claim_granting_reply_value.items[-1]]
    refuse = (grant + 1) % 3
    sc = D.Script(info, mc, origin == FacilitiesOrigin.CREATE, _services_bool(origin))
    sc.prologue()
    sc.bind_all(clients)
    sc.final_construct()
    itf_t = f'{D._ns(m)}{prt.itf}'
    holder = None
    if pre is not None:
        sc.lines.append(f'    g_replies.push_back({grant});')
        sc.invoke(f'{sc.accessor_expr(prt, pre)}.in.{claim.name}', claim, f'pre-claim@{pre}', itf_t)
        holder = pre
    if op == 'claim':
        granted = holder is None or holder == actor
        reply_value = grant if granted else refuse
        if claim_reply is not None:           # the solver's witness value for the component's reply
            reply_value = claim_reply
            granted = claim_reply == grant
        sc.lines.append(f'    g_replies.push_back({reply_value});')
        sc.invoke(f'{sc.accessor_expr(prt, actor)}.in.{claim.name}', claim, f'claim@{actor}', itf_t)
        if granted:
            holder = actor
    elif op == 'release':
        sc.invoke(f'{sc.accessor_expr(prt, actor)}.in.{release.name}', release, f'release@{actor}', itf_t)
        if holder == actor:
            holder = None
    elif op.startswith('other:'):
        ev = next(e for e in itf.events if e.name == op.split(':', 1)[1])
        sc.invoke(f'{sc.accessor_expr(prt, actor)}.in.{ev.name}', ev, f'other@{actor}', itf_t)
    outs = [e for e in itf.events if e.direction == 'out']
    for ev in outs:
        sc.invoke(f'g_enc(shell).{prt.name}.out.{ev.name}', ev, f'out.{ev.name}', itf_t)
    rc, out = D.compile_and_run(prog_dir, info, sc.source(), 'drv_mc', asan=asan)
    if rc == 2:
        return {'__error__': [out[:400]]}, out
    blocks = D.parse_trace(out)[1:]
    res = {'__holder__': [str(holder)], '__step_findings__': []}
    for blk in blocks:
        # the routing / integrity oracle on the step itself (claim / release / other in-event)
        if blk['tag'].split('@')[0] in ('claim', 'release', 'other'):
            ev_name = {'claim': claim.name, 'release': release.name}.get(blk['tag'].split('@')[0])
            if ev_name is None:
                ev_name = op.split(':', 1)[1]
            ev_obj = next(e for e in itf.events if e.name == ev_name)
            step = {'prt': prt, 'ev': ev_obj, 'tag': f'{prt.name}.in.{ev_name}@{actor}', 'sem': 'MTS',
                    'inbound': True, 'expect_side': 'comp'}
            res['__step_findings__'] += judge_block(step, blk)
        if blk['tag'].startswith('out.'):
            res[blk['tag'][4:]] = [c['side'] for c in blk['calls']]
        else:
            res['step:' + blk['tag']] = [f'{c["side"]}.{c["event"]}' for c in blk['calls']]
    return res, out


def run_facilities(info, pc, prog_dir: str, has_pump: bool, has_rt: bool, has_other: bool) -> Tuple[List[str], str]:
    """Construct the shell with the given locator contents; evaluate the C09 oracle on the compiled program."""
    origin = info['case'].origin
    create = origin == FacilitiesOrigin.CREATE
    mc = pc.multiclient
    sc = D.Script(info, mc, create, {'dzn::pump': has_pump, 'dzn::runtime': has_rt, 'OtherService': has_other})
    sc.prologue()
    L = sc.lines
    L.append('    std::cout << "ENC_LOCATOR_IS_USER " << (&g_enc(shell).dzn_locator == &userLocator) << std::endl;')
    L.append('    std::cout << "USER_LOCATOR_SIZE " << userLocator.services.size() << std::endl;')
    if create:
        L.append('    std::cout << "HAS_LOCATOR_ACCESSOR 1" << std::endl;')
        L.append('    std::cout << "ENC_LOCATOR_IS_OWN " << (&g_enc(shell).dzn_locator == &shell.Locator()) << std::endl;')
        L.append('    std::cout << "OWN_PUMP " << (shell.Locator().try_get<dzn::pump>() == &shell.m_dispatcher) << std::endl;')
        L.append('    std::cout << "OWN_RUNTIME " << (shell.Locator().try_get<dzn::runtime>() == &shell.m_runtime) << std::endl;')
        L.append('    std::cout << "OTHER_CARRIED " << (shell.Locator().try_get<OtherService>() == '
                 + ('&other' if has_other else 'nullptr') + ') << std::endl;')
        L.append('    std::cout << "PUMP_IS_USER " << (&shell.m_dispatcher == &userPump) << std::endl;')
    else:
        L.append('    std::cout << "PUMP_IS_USER " << (&shell.m_dispatcher == &userPump) << std::endl;')
    rc, out = D.compile_and_run(prog_dir, info, sc.source(), 'drv_fac')
    if rc == 2:
        return [f'compile/run failure: {out[:300]}'], out
    obs = {}
    threw = None
    for line in out.splitlines():
        if line.startswith('THROW ctor'):
            threw = line[11:]
        parts = line.split(' ')
        if len(parts) == 2 and parts[1].isdigit():
            obs[parts[0]] = int(parts[1])
    must_throw = (has_pump or has_rt) if create else (not has_pump or not has_rt)
    findings = []
    n_user = int(has_pump) + int(has_rt) + int(has_other)
    if threw is not None:
        if not must_throw:
            findings.append(f'construction fails ({threw}) although the user\'s locator is acceptable for {origin.name}')
        return findings, out
    if must_throw:
        findings.append(f'construction succeeds although it must fail for {origin.name}')
        return findings, out
    if obs.get('USER_LOCATOR_SIZE') != n_user:
        findings.append('the user\'s (prototype) locator was modified')
    if create:
        if not obs.get('ENC_LOCATOR_IS_OWN'):
            findings.append('the wrapped component is not constructed with the shell\'s own locator')
        if not obs.get('OWN_PUMP'):
            findings.append('the shell\'s locator does not hold the shell\'s own dispatcher')
        if not obs.get('OWN_RUNTIME'):
            findings.append('the shell\'s locator does not hold the shell\'s own runtime')
        if not obs.get('OTHER_CARRIED'):
            findings.append('services of the prototype locator are not carried over')
        if obs.get('PUMP_IS_USER'):
            findings.append('CREATE shell uses the user\'s dispatcher')
    else:
        if not obs.get('PUMP_IS_USER'):
            findings.append('IMPORT shell does not use the dispatcher found in the user\'s locator')
        if not obs.get('ENC_LOCATOR_IS_USER'):
            findings.append('IMPORT shell does not hand the user\'s locator to the component')
    return findings, out


def slot_names(info, pc, clients=('c0', 'c1')) -> List[str]:
    """names of all user/component bindable slots, as used by scenarios.final_construct"""
    m: fam.Model = info['model']
    mc = pc.multiclient
    out = []
    for prt in m.ports:
        if prt.injected:
            continue
        itf = next(i for i in m.itfs if i.name == prt.itf)
        is_mc = mc is not None and prt.name == mc.port_name
        for ev in itf.events:
            user_binds = (prt.direction == 'provides') == (ev.direction == 'out')
            if user_binds:
                for cl in (clients if is_mc else [None]):
                    out.append(f'user:{prt.name}{"@" + cl if cl else ""}.{ev.direction}.{ev.name}')
            else:
                out.append(f'comp:{prt.name}.{ev.direction}.{ev.name}')
    return out


def run_final_construct(info, pc, prog_dir: str, unbound: List[str]) -> Tuple[str, str]:
    """Bind every slot except `unbound`, call FinalConstruct.  -> ('ok' | 'throw <what>' | 'error', raw)"""
    origin = info['case'].origin
    mc = pc.multiclient
    m: fam.Model = info['model']
    sc = D.Script(info, mc, origin == FacilitiesOrigin.CREATE, _services_bool(origin))
    sc.prologue()
    skip = set(unbound)
    for prt in m.ports:
        if prt.injected:
            continue
        itf = next(i for i in m.itfs if i.name == prt.itf)
        is_mc = mc is not None and prt.name == mc.port_name
        for cl in (['c0', 'c1'] if is_mc else []):
            sc.lines.append(f'    (void){sc.accessor_expr(prt, cl)};')
        for ev in itf.events:
            user_binds = (prt.direction == 'provides') == (ev.direction == 'out')
            if user_binds:
                for cl in (['c0', 'c1'] if is_mc else [None]):
                    name = f'user:{prt.name}{"@" + cl if cl else ""}.{ev.direction}.{ev.name}'
                    if name in skip:
                        continue
                    side = 'user' if cl is None else f'client:{cl}'
                    sc.lines.append(f'    {sc.accessor_expr(prt, cl)}.{ev.direction}.{ev.name} = '
                                    f'{sc.handler(side, prt, ev)};')
            else:
                name = f'comp:{prt.name}.{ev.direction}.{ev.name}'
                if name in skip:
                    sc.lines.append(f'    g_enc(shell).{prt.name}.{ev.direction}.{ev.name} = nullptr;')
                    continue
                sc.lines.append(f'    g_enc(shell).hook_{prt.name}_{ev.direction}_{ev.name} = '
                                f'{sc.handler("comp", prt, ev)};')
    sc.lines.append('    static dzn::meta parentMeta;')
    sc.lines.append('    try { shell.FinalConstruct(&parentMeta); std::cout << "FINAL ok" << std::endl; }')
    sc.lines.append('    catch (const std::exception& e) { std::cout << "FINAL throw " << e.what() << std::endl; }')
    sc.lines.append('    std::cout << "PARENT_SET " << (g_enc(shell).dzn_meta.parent == &parentMeta) << std::endl;')
    if mc is not None:
        prt = next(p for p in m.ports if p.name == mc.port_name)
        sc.lines.append(f'    try {{ (void){sc.accessor_expr(prt, "late-client")}; std::cout << "LATE ok" << std::endl; }}')
        sc.lines.append('    catch (const std::exception& e) { std::cout << "LATE throw" << std::endl; }')
    rc, out = D.compile_and_run(prog_dir, info, sc.source(), 'drv_fc')
    if rc == 2:
        return 'error ' + out[:300], out
    res = 'error no FINAL line'
    for line in out.splitlines():
        if line.startswith('FINAL '):
            res = line[6:]
    return res, out


def run_routing_asan(info, pc, prog_dir: str):
    """Routing scenario built with AddressSanitizer (stack-use-after-return) to confirm dangling
    by-reference captures, which plain execution cannot show reliably."""
    import os
    import subprocess
    origin = info['case'].origin
    sc = D.Script(info, pc.multiclient, origin == FacilitiesOrigin.CREATE, _services_bool(origin))
    sc.prologue()
    sc.bind_all(['c0', 'c1'])
    plan = routing_plan(info, pc)
    m = info['model']
    for step in plan:
        prt, ev = step['prt'], step['ev']
        slot = f'{sc.accessor_expr(prt, step["client"])}.{ev.direction}.{ev.name}' if step['user_calls'] \
            else f'g_enc(shell).{prt.name}.{ev.direction}.{ev.name}'
        sc.invoke(slot, ev, step['tag'], f'{D._ns(m)}{prt.itf}')
    src = os.path.join(prog_dir, 'drv_asan.cc')
    with open(src, 'w', encoding='utf-8') as fh:
        fh.write(sc.source())
    exe = os.path.join(prog_dir, 'drv_asan')
    cmd = ['g++', '-std=c++17', '-O0', '-g', '-w', '-fsanitize=address', '-fno-omit-frame-pointer',
           '-I', D.MOCK_INC, '-I', prog_dir, src, '-o', exe, '-pthread']
    proc = subprocess.run(cmd, capture_output=True, text=True, timeout=600, check=False)
    if proc.returncode != 0:
        return [], [f'compile failure: {proc.stderr[:300]}'], proc.stderr
    env = dict(os.environ, ASAN_OPTIONS='detect_stack_use_after_return=1:halt_on_error=1')
    run = subprocess.run([exe], capture_output=True, text=True, timeout=120, env=env, check=False)
    findings = []
    if 'AddressSanitizer' in run.stderr:
        # the last INVOKE line printed before the report names the event
        tags = [l[7:] for l in run.stdout.splitlines() if l.startswith('INVOKE ')]
        kind = 'stack-use-after-return' if 'stack-use-after-return' in run.stderr else 'memory error'
        findings.append(f'{tags[-1] if tags else "?"}: AddressSanitizer {kind} (queued closure reads the caller\'s dead stack frame)')
    return [], findings, run.stdout + run.stderr[:2000]
