"""Make `import dznpy` resolve to the working tree /repo/src (never to the wheel in /venv).

Every harness module imports this first.  If dznpy does not come from /repo/src the process
aborts with the reserved harness-error exit code (3) — a check must never silently analyse the
installed wheel.
"""
import os
import sys

REPO = os.environ.get('VF_REPO', '/repo')
SRC = os.path.join(REPO, 'src')
HARNESS_ERROR = 3

if SRC in sys.path:
    sys.path.remove(SRC)
sys.path.insert(0, SRC)

# hooks guard (no hooks are needed at present; kept so that MANIFEST.hooks.guard is honoured)
os.environ.setdefault('DZNPY_VERIF', '1')

import dznpy  # noqa: E402

if not os.path.abspath(dznpy.__file__).startswith(os.path.abspath(SRC) + os.sep):
    sys.stderr.write(f'HARNESS-ERROR: dznpy imported from {dznpy.__file__}, not from {SRC}\n')
    sys.exit(HARNESS_ERROR)
