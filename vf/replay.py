"""Native replay of a harness call on the real code: plain interpreter, no CrossHair, no stubs.

usage: python -m vf.replay <module> <call-expression>
prints one JSON line: {"ok": true|false|null, "exc": "<Type: msg>"|null}

`ok` is the harness' return value (True = property holds for this input).  An exception escaping
the harness is a failure of the property on that input (harnesses catch the documented errors
themselves).  Also used as a library (run_replay) through a subprocess so that a RecursionError or
a hang in the real code cannot take the checker down.
"""
import importlib
import json
import subprocess
import sys
import os

REPLAY_TIMEOUT_S = 900


def _main() -> int:
    modname, call = sys.argv[1], sys.argv[2]
    out = {'ok': None, 'exc': None}
    try:
        mod = importlib.import_module(modname)
        if len(sys.argv) > 3:      # history replay: first re-run the earlier native invocations of the process
            with open(sys.argv[3], encoding='utf-8') as fh:
                hist = json.load(fh)
            for hmod, hname, hargs in hist['calls']:
                try:
                    getattr(importlib.import_module(hmod), hname)(*hargs)
                except Exception:  # pylint: disable=broad-except
                    pass
        res = eval(call, dict(mod.__dict__))  # pylint: disable=eval-used
        out['ok'] = bool(res)
        if isinstance(res, tuple):  # (ok, info)
            out['ok'] = bool(res[0])
    except BaseException as exc:  # pylint: disable=broad-except
        if isinstance(exc, (KeyboardInterrupt, SystemExit)):
            raise
        out['ok'] = False
        out['exc'] = f'{type(exc).__name__}: {str(exc)[:300]}'
    sys.stdout.write('@@RP@@' + json.dumps(out) + '\n')
    return 0


def run_replay(modname: str, call: str, env_extra=None, history: str = None) -> dict:
    """Replay in a fresh interpreter. Returns {'ok':..., 'exc':...}; ok None = replay itself broke.
    With `history` (a file written by the CrossHair worker) the earlier native harness invocations of
    that worker process are re-executed first: a violation that needs state leaked by earlier calls."""
    env = dict(os.environ)
    env['PYTHONPATH'] = os.path.dirname(os.path.dirname(os.path.abspath(__file__)))
    if env_extra:
        env.update(env_extra)
    try:
        proc = subprocess.run([sys.executable, '-m', 'vf.replay', modname, call] + ([history] if history else []),
                              capture_output=True, text=True, timeout=REPLAY_TIMEOUT_S, env=env,
                              check=False)
    except subprocess.TimeoutExpired:
        return {'ok': False, 'exc': f'Timeout: no result within {REPLAY_TIMEOUT_S}s (hang)'}
    for line in proc.stdout.splitlines():
        if line.startswith('@@RP@@'):
            return json.loads(line[6:])
    return {'ok': None, 'exc': f'replay produced no result (rc={proc.returncode}): '
                               f'{proc.stderr[-300:]}'}


if __name__ == '__main__':
    sys.exit(_main())
