"""E2: translate a (small subset of) Python regular expression into a z3 regex and decide
equivalence with a specification regex for strings of unbounded length.

Supported: literals, escapes of punctuation, character classes with ranges (no negation), '.',
'*', '+', '?', concatenation, a leading '^' and a trailing '$'.  Anything else raises Unsupported,
which callers must report as *inconclusive* (never as a pass).
"""
import ast
import inspect
import re
import subprocess
import tempfile
import textwrap
import time
import os

import z3


class Unsupported(Exception):
    pass


def parse_pattern(pat: str):
    """Return (anchored_start, anchored_end, z3 regex of the core)."""
    start = pat.startswith('^')
    if start:
        pat = pat[1:]
    end = pat.endswith('$') and not pat.endswith('\\$')
    if end:
        pat = pat[:-1]
    pos = 0
    seq = []

    def char_re(c):
        return z3.Re(z3.StringVal(c))

    while pos < len(pat):
        c = pat[pos]
        if c == '[':
            close = pat.index(']', pos + 1)
            body = pat[pos + 1:close]
            if body.startswith('^'):
                raise Unsupported('negated class')
            alts = []
            i = 0
            while i < len(body):
                if body[i] == '\\':
                    raise Unsupported('escape in class')
                if i + 2 < len(body) and body[i + 1] == '-':
                    alts.append(z3.Range(body[i], body[i + 2]))
                    i += 3
                else:
                    alts.append(char_re(body[i]))
                    i += 1
            atom = alts[0] if len(alts) == 1 else z3.Union(*alts)
            pos = close + 1
        elif c == '\\':
            nxt = pat[pos + 1]
            if nxt.isalnum():
                raise Unsupported('class escape \\' + nxt)
            atom = char_re(nxt)
            pos += 2
        elif c == '.':
            atom = z3.Diff(z3.AllChar(z3.ReSort(z3.StringSort())), char_re('\n'))
            pos += 1
        elif c in '()|{}^$':
            raise Unsupported('construct ' + c)
        elif c in '*+?':
            raise Unsupported('dangling quantifier')
        else:
            atom = char_re(c)
            pos += 1
        if pos < len(pat) and pat[pos] in '*+?':
            q = pat[pos]
            atom = {'*': z3.Star, '+': z3.Plus, '?': z3.Option}[q](atom)
            pos += 1
            if pos < len(pat) and pat[pos] in '*+?':
                raise Unsupported('lazy/possessive quantifier')
        seq.append(atom)
    if not seq:
        core = z3.Re(z3.StringVal(''))
    elif len(seq) == 1:
        core = seq[0]
    else:
        core = z3.Concat(*seq)
    return start, end, core


def accepts(fn_name: str, pat: str, s):
    """z3 Bool: does re.<fn_name>(pat, s) succeed?  Models '$' before a final newline."""
    start, end, core = parse_pattern(pat)
    anyre = z3.Star(z3.AllChar(z3.ReSort(z3.StringSort())))
    nl = z3.Re(z3.StringVal('\n'))
    if fn_name == 'fullmatch':
        # the whole string is consumed; a trailing '$' can then only match at the very end
        return z3.InRe(s, core)
    tail = z3.Option(nl) if end else anyre      # '$' = end, or just before one final newline
    if fn_name == 'match':
        return z3.InRe(s, z3.Concat(core, tail))
    if fn_name == 'search':
        head = z3.Re(z3.StringVal('')) if start else anyre
        return z3.InRe(s, z3.Concat(head, core, tail))
    raise Unsupported('re.' + fn_name)


def extract_re_call(func) -> tuple:
    """Find the single regex match call in the source of func (from the AST):
    either  re.<fn>(<literal pattern>, x)  or  <NAME>.<fn>(x)  where NAME is a module-level
    compiled pattern (its pattern text and flags are read from the real module object)."""
    import re as _re
    tree = ast.parse(textwrap.dedent(inspect.getsource(func)))
    found = []
    for node in ast.walk(tree):
        if not (isinstance(node, ast.Call) and isinstance(node.func, ast.Attribute)
                and node.func.attr in ('match', 'fullmatch', 'search')
                and isinstance(node.func.value, ast.Name)):
            continue
        base = node.func.value.id
        if base == 're':
            if node.args and isinstance(node.args[0], ast.Constant) and isinstance(node.args[0].value, str):
                if len(node.args) > 2 or node.keywords:
                    raise Unsupported('regex flags')
                found.append((node.func.attr, node.args[0].value))
            else:
                raise Unsupported('non-literal pattern')
        else:
            obj = getattr(func, '__globals__', {}).get(base)
            if isinstance(obj, _re.Pattern):
                if obj.flags & ~_re.UNICODE:
                    raise Unsupported(f'compiled pattern with flags {obj.flags}')
                found.append((node.func.attr, obj.pattern))
    if len(found) != 1:
        raise Unsupported(f'{len(found)} regex match calls found')
    return found[0]


def check_equivalence(fn_name: str, pat: str, spec_pat: str, timeout_ms: int = 60000) -> dict:
    """Is {s | re.fn(pat, s)} == L(spec_pat) for all strings?"""
    s = z3.String('s')
    impl = accepts(fn_name, pat, s)
    _, _, spec_core = parse_pattern(spec_pat)
    spec = z3.InRe(s, spec_core)
    solver = z3.Solver()
    solver.set('timeout', timeout_ms)
    solver.add(impl != spec)
    t0 = time.time()
    res = str(solver.check())
    out = {'result': res, 'solver_s': round(time.time() - t0, 3), 'witness': None,
           'smt2': solver.to_smt2()}
    if res == 'sat':
        out['witness'] = solver.model()[s].as_string()
    return out


def cross_check_cvc5(smt2: str, timeout_s: int = 60) -> str:
    """Run the cvc5 binary on the same query (file input). Returns sat/unsat/unknown/unavailable."""
    exe = '/usr/bin/cvc5'
    if not os.path.exists(exe):
        return 'unavailable'
    with tempfile.NamedTemporaryFile('w', suffix='.smt2', delete=False) as fh:
        fh.write('(set-logic ALL)\n' + smt2)
        path = fh.name
    try:
        proc = subprocess.run([exe, '--strings-exp', f'--tlimit={timeout_s * 1000}', path],
                              capture_output=True, text=True, timeout=timeout_s + 10, check=False)
        out = proc.stdout.strip().splitlines()
        if '(error' in proc.stdout or '(error' in proc.stderr:
            return 'error'
        return out[0] if out else 'unknown'
    except subprocess.TimeoutExpired:
        return 'unknown'
    finally:
        os.unlink(path)
