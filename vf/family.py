"""A bounded family of Dezyne models and advanced-shell configurations, built natively at import.

Used by the build-level properties (C12, C13) and by the C++-level engine (ShellSem: C01, C02, C04,
C09, C10).  Everything is plain data so that a case can be named by a few small integers.
"""
from dataclasses import dataclass, field
from typing import Dict, List, Optional, Tuple
from . import realcode  # noqa: F401
from . import docgen as dg

from dznpy import ast
from dznpy.adv_shell import (all_mts, all_sts, all_sts_all_mts, all_mts_all_sts, all_mts_mixed_ts,
                             all_sts_mixed_ts, MultiClientPortCfg)
from dznpy.adv_shell.common import Configuration, FacilitiesOrigin
from dznpy.adv_shell.port_selection import PortSelect, PortWildcard, PortsCfg, PortsSemanticsCfg
from dznpy.scoping import ns_ids_t

# fields of the reply enum: the granting values used ('Ok', 'Busy') are substrings of / next to other fields
RES_FIELDS = ('NotOk', 'Ok', 'Busy')

# extern data types: name -> C++ spelling (all defined by the mock model header of ShellSem)
EXTERNS = {'TInt': 'int', 'TBlob': 'Blob', 'TStr': 'std::string'}


@dataclass(frozen=True)
class Ev:
    name: str
    direction: str                       # 'in' | 'out'
    reply: str = 'void'                  # 'void' | 'Res'
    formals: Tuple[Tuple[str, str, str], ...] = ()   # (name, 'in'|'out'|'inout', extern name)


@dataclass(frozen=True)
class Itf:
    name: str
    events: Tuple[Ev, ...]
    has_res: bool = False                # declares enum Res {Ok, Nok, Busy} inside the interface


@dataclass(frozen=True)
class Prt:
    name: str
    direction: str                       # 'provides' | 'requires'
    itf: str
    injected: bool = False


@dataclass(frozen=True)
class Model:
    label: str
    ns: Tuple[str, ...]
    itfs: Tuple[Itf, ...]
    ports: Tuple[Prt, ...]
    system: bool = False
    comp: str = 'VfComp'
    externs: Tuple[Tuple[str, str], ...] = ()      # overrides of EXTERNS (twin models: same names, other content)


I_A = Itf('VfIA', (Ev('e0', 'in'), Ev('o0', 'out')))
# in- and out-events deliberately interleaved in declaration order
I_B = Itf('VfIB', (Ev('e1', 'in', 'Res', (('a', 'in', 'TInt'), ('b', 'out', 'TBlob'), ('c', 'inout', 'TInt'))),
                 Ev('o3', 'out', 'void', (('x', 'in', 'TInt'), ('y', 'in', 'TInt'), ('t', 'in', 'TStr'), ('u', 'in', 'TStr'))),
                 Ev('e2', 'in', 'void', (('s', 'in', 'TStr'),)),
                 Ev('o1', 'out', 'void', (('a', 'in', 'TInt'), ('b', 'in', 'TBlob'))),
                 Ev('e3', 'in', 'Res', (('x', 'in', 'TInt'), ('y', 'in', 'TInt'), ('z', 'inout', 'TInt'), ('w', 'out', 'TInt'))),
                 Ev('o2', 'out')), has_res=True)
I_C = Itf('VfIC', (Ev('Claim', 'in', 'Res'), Ev('Done', 'out'), Ev('Release', 'in'),
                 Ev('Work', 'in', 'Res', (('a', 'in', 'TInt'), ('b', 'in', 'TInt'))),
                 Ev('Fail', 'out', 'void', (('x', 'in', 'TBlob'), ('y', 'in', 'TBlob')))), has_res=True)
# claim / release under other names and with formals; an unrelated event is literally called Release
I_C2 = Itf('VfIC2', (Ev('Acquire', 'in', 'Res', (('who', 'in', 'TInt'), ('tok', 'out', 'TInt'), ('cnt', 'inout', 'TInt'))),
                   Ev('GiveBack', 'in', 'void', (('who', 'in', 'TInt'), ('cnt', 'inout', 'TInt'))),
                   Ev('Release', 'in', 'void', (('port', 'in', 'TInt'),)),
                   Ev('identifier', 'out', 'void', (('port', 'in', 'TInt'),))), has_res=True)
I_D = Itf('VfID', ())
I_E = Itf('VfIE', (Ev('only_in', 'in', 'Res'),), has_res=True)
I_F = Itf('VfIF', (Ev('only_out', 'out', 'void', (('v', 'in', 'TStr'),)),))

MODELS: List[Model] = [
    Model('one-provides', ('N',), (I_A,), (Prt('p', 'provides', 'VfIA'),)),
    Model('prov+req', ('N', 'M'), (I_B,), (Prt('api', 'provides', 'VfIB'), Prt('dev', 'requires', 'VfIB'))),
    Model('global-ns', (), (I_A, I_B), (Prt('p', 'provides', 'VfIA'), Prt('r', 'requires', 'VfIB'))),
    Model('two-ports-one-itf', ('N',), (I_B, I_A),
          (Prt('first', 'provides', 'VfIB'), Prt('second', 'provides', 'VfIB'), Prt('r', 'requires', 'VfIA'),
           Prt('r2', 'requires', 'VfIA'))),
    Model('injected', ('N',), (I_A, I_E),
          (Prt('p', 'provides', 'VfIA'), Prt('cfg', 'requires', 'VfIE', True), Prt('r', 'requires', 'VfIE'))),
    Model('no-ports', ('N',), (I_A,), ()),
    Model('only-requires', ('N',), (I_F, I_D), (Prt('sink', 'requires', 'VfIF'), Prt('void_', 'requires', 'VfID'))),
    Model('notify-provides', ('N',), (I_F, I_A), (Prt('notify', 'provides', 'VfIF'), Prt('p', 'provides', 'VfIA'))),
    Model('system', ('N',), (I_A, I_B), (Prt('p', 'provides', 'VfIB'), Prt('r', 'requires', 'VfIA')), system=True),
    Model('mc-first', ('N',), (I_C, I_A),
          (Prt('api', 'provides', 'VfIC'), Prt('other', 'provides', 'VfIA'), Prt('r', 'requires', 'VfIA'))),
    Model('mc-last', ('N', 'M'), (I_A, I_C2),
          # 'ct' is a proper prefix of the multi-client port's name 'ctl'
          (Prt('ct', 'provides', 'VfIA'), Prt('ctl', 'provides', 'VfIC2'), Prt('r', 'requires', 'VfIA'))),
    Model('mc-only', (), (I_C,), (Prt('Api', 'provides', 'VfIC'),)),
    Model('three-requires', ('N',), (I_A, I_F),
          (Prt('p', 'provides', 'VfIA'), Prt('motorA', 'requires', 'VfIA'), Prt('sensor', 'requires', 'VfIF'),
           Prt('motorB', 'requires', 'VfIA'))),
]
# additional models explored by the thorough tier of the C++-level checks only
I_G = Itf('VfIG', (Ev('g_out_first', 'out', 'void', (('p', 'in', 'TBlob'), ('q', 'in', 'TBlob'), ('r', 'in', 'TInt'))),
                 Ev('g_in', 'in', 'void', (('m', 'inout', 'TBlob'), ('n', 'inout', 'TBlob'))),
                 Ev('g_in2', 'in', 'Res', (('s1', 'out', 'TStr'), ('s2', 'out', 'TStr'), ('s3', 'in', 'TStr'))),
                 Ev('g_out_last', 'out')), has_res=True)
I_C3 = Itf('VfIC3', (Ev('Done', 'out', 'void', (('a', 'in', 'TInt'), ('b', 'in', 'TInt'))),
                   Ev('Lock', 'in', 'Res', (('who', 'in', 'TStr'),)),
                   Ev('Claim', 'in', 'void'),                      # a decoy: NOT the configured claim event
                   Ev('Unlock', 'in', 'void', (('who', 'in', 'TStr'), ('force', 'in', 'TInt'))),
                   Ev('Peek', 'in', 'Res', (('x', 'out', 'TInt'),))), has_res=True)
MODELS_EXTRA: List[Model] = [
    Model('deep-ns', ('A', 'B', 'C'), (I_G, I_A),
          (Prt('g', 'provides', 'VfIG'), Prt('h', 'requires', 'VfIG'), Prt('a', 'requires', 'VfIA'))),
    Model('four-provides', ('N',), (I_G, I_B, I_A),
          (Prt('p1', 'provides', 'VfIG'), Prt('p2', 'provides', 'VfIB'), Prt('p3', 'provides', 'VfIA'),
           Prt('p4', 'provides', 'VfIG'), Prt('r1', 'requires', 'VfIG'), Prt('inj', 'requires', 'VfIB', True),
           Prt('r2', 'requires', 'VfIB'))),
    Model('mc-middle', ('N',), (I_A, I_C3, I_G),
          (Prt('before', 'provides', 'VfIA'), Prt('lock', 'provides', 'VfIC3'), Prt('after', 'provides', 'VfIG'),
           Prt('r', 'requires', 'VfIG'))),
    Model('system-global', (), (I_G,), (Prt('g', 'provides', 'VfIG'), Prt('h', 'requires', 'VfIG')), system=True),
]
# twin models: identical names / scopes as a base model but different content behind them; a build of
# the twin after the base model (same process) must not pick up anything from the earlier build
I_B_TWIN = Itf('VfIB', (Ev('e1', 'in', 'Res', (('a', 'in', 'TInt'), ('b', 'out', 'TBlob'))),
                      Ev('o1', 'out', 'void', (('a', 'in', 'TInt'),)),
                      Ev('e2', 'in', 'void', (('s', 'in', 'TStr'), ('extra', 'in', 'TInt')))), has_res=True)
I_C_TWIN = Itf('VfIC', (Ev('Claim', 'in', 'Res', (('prio', 'in', 'TInt'),)), Ev('Done', 'out'),
                      Ev('Release', 'in', 'void', (('bye', 'out', 'TStr'),)),
                      Ev('Work', 'in', 'Res', (('a', 'in', 'TInt'),)),
                      Ev('Fail', 'out', 'void', (('x', 'in', 'TBlob'),))), has_res=True)
TWINS: List[Tuple[str, Model]] = [
    ('prov+req', Model('prov+req~twin', ('N', 'M'), (I_B_TWIN,),
                       (Prt('api', 'provides', 'VfIB'), Prt('dev', 'requires', 'VfIB')),
                       externs=(('TInt', 'double'), ('TStr', 'const char*')))),
    ('mc-first', Model('mc-first~twin', ('N',), (I_C_TWIN, I_A),
                       (Prt('api', 'provides', 'VfIC'), Prt('other', 'provides', 'VfIA'), Prt('r', 'requires', 'VfIA')))),
    ('one-provides', Model('one-provides~twin', ('N',), (I_A,), (Prt('p', 'provides', 'VfIA'),), comp='VfComp',
                           externs=(('TInt', 'long'),))),
]
MODELS_ALL = MODELS + MODELS_EXTRA
MODEL_BY_LABEL = {m.label: i for i, m in enumerate(MODELS_ALL)}

# multi-client settings that fit a model: label -> (port, claim, granting value, release)
MC_FOR = {'mc-middle': ('lock', 'Lock', 'NotOk', 'Unlock'),
          'mc-first~twin': ('api', 'Claim', 'Ok', 'Release'),
          'mc-first': ('api', 'Claim', 'Ok', 'Release'),
          'mc-last': ('ctl', 'Acquire', 'Busy', 'GiveBack'),
          'mc-only': ('Api', 'Claim', 'Ok', 'Release')}


def model_doc(m: Model) -> dict:
    """Externs and (when needed) nothing else live in the global namespace; interfaces and the
    encapsulee live in m.ns."""
    ext = dict(EXTERNS)
    ext.update(dict(m.externs))
    elements = [dg.extern([n], v) for n, v in ext.items()]
    inner = []
    for itf in m.itfs:
        events = [dg.event(e.name, e.direction, [e.reply],
                           [dg.formal(fn, [ft], fd) for fn, fd, ft in e.formals]) for e in itf.events]
        types = [dg.enum(['Res'], list(RES_FIELDS))] if itf.has_res else []
        inner.append(dg.interface([itf.name], events, types))
    prts = [dg.port(p.name, [p.itf], p.direction, p.injected) for p in m.ports]
    if m.system:
        inner.append(dg.component(['VfInner'], prts))
        inner.append(dg.system([m.comp], prts, [dg.instance('inner', ['VfInner'])],
                               [dg.binding(dg.endpoint(p.name), dg.endpoint(p.name, 'inner'))
                                for p in m.ports]))
    else:
        inner.append(dg.component([m.comp], prts))
    inner.append(dg.foreign(['VfFrgn'], []))
    for name in reversed(m.ns):
        inner = [dg.namespace([name], inner)]
    return dg.root(elements + inner)


FCS: List[ast.FileContents] = [dg.parse(model_doc(m)) for m in MODELS_ALL]


def mc_cfg(m: Model) -> Optional[MultiClientPortCfg]:
    if m.label not in MC_FOR:
        return None
    port, claim, val, rel = MC_FOR[m.label]
    return MultiClientPortCfg(port, claim, ns_ids_t(val), rel)


def _sel(*names) -> PortSelect:
    return PortSelect(set(names))


_NONE, _ALL, _REM = PortSelect(PortWildcard.NONE), PortSelect(PortWildcard.ALL), PortSelect(PortWildcard.REMAINING)


def port_cfgs(m: Model) -> List[Tuple[str, PortsCfg]]:
    """Valid port configurations for a model (presets and explicit/remaining selections)."""
    mc = mc_cfg(m)
    out = [('all_mts', all_mts(mc))]
    reqs = [p.name for p in m.ports if p.direction == 'requires' and not p.injected]
    if mc is None:
        out += [('all_sts', all_sts()), ('all_sts_all_mts', all_sts_all_mts())]
    out.append(('all_mts_all_sts', all_mts_all_sts(mc)))
    if reqs:
        out.append(('mts_mixed_explicit', all_mts_mixed_ts(_sel(reqs[0]), _REM, mc)))
        out.append(('mts_explicit_only', all_mts_mixed_ts(_NONE, _sel(*reqs), mc)))    # nothing but names
        if len(reqs) > 1:
            out.append(('mts_mixed_explicit2', all_mts_mixed_ts(_REM, _sel(reqs[-1]), mc)))
            out.append(('mts_mixed_both', all_mts_mixed_ts(_sel(reqs[0]), _sel(*reqs[1:]), mc)))
        if len(reqs) > 2:        # interleaved semantics: MTS, STS, MTS in declaration order
            out.append(('mts_interleaved', all_mts_mixed_ts(_sel(reqs[1]), _sel(reqs[0], reqs[2]), mc)))
            out.append(('sts_interleaved', all_mts_mixed_ts(_sel(reqs[0], reqs[2]), _sel(reqs[1]), mc)))
        if mc is None:
            out.append(('sts_mixed_explicit', all_sts_mixed_ts(_REM, _sel(reqs[0]))))
    return out


@dataclass(frozen=True)
class Case:
    model_i: int
    cfg_label: str
    origin: FacilitiesOrigin
    prefix: Optional[Tuple[str, ...]]

    @property
    def label(self) -> str:
        return f'{MODELS_ALL[self.model_i].label}/{self.cfg_label}/{self.origin.name}/' \
               f'{".".join(self.prefix) if self.prefix else "-"}'


def make_configuration(case: Case, ports_cfg: PortsCfg, fc=None, encapsulee=None,
                       copyright_txt: str = '(c) test') -> Configuration:
    m = MODELS_ALL[case.model_i]
    return Configuration(dezyne_filename=f'some/dir/{m.comp}.dzn',
                         ast_fc=fc if fc is not None else FCS[case.model_i],
                         output_basename_suffix='AdvShell',
                         fqn_encapsulee_name=encapsulee if encapsulee is not None
                         else ns_ids_t(list(m.ns) + [m.comp]),
                         ports_cfg=ports_cfg, facilities_origin=case.origin, copyright=copyright_txt,
                         support_files_ns_prefix=ns_ids_t(list(case.prefix)) if case.prefix else None,
                         creator_info='unit\ncreator')


def valid_cases() -> List[Tuple[Case, PortsCfg]]:
    out = []
    for mi, m in enumerate(MODELS):
        for label, pc in port_cfgs(m):
            for origin in (FacilitiesOrigin.CREATE, FacilitiesOrigin.IMPORT):
                for prefix in (None, ('My', 'Sup')):
                    # keep the family small: prefix variation only with CREATE
                    if prefix and origin == FacilitiesOrigin.IMPORT:
                        continue
                    out.append((Case(mi, label, origin, prefix), pc))
    return out


VALID = valid_cases()


def extra_cases() -> List[Tuple[Case, PortsCfg]]:
    """thorough tier of the C++-level checks: the extra models with every origin x prefix, and the
    origin/prefix combinations the base family leaves out"""
    out = []
    for mi, m in enumerate(MODELS_ALL):
        for label, pc in port_cfgs(m):
            for origin in (FacilitiesOrigin.CREATE, FacilitiesOrigin.IMPORT):
                for prefix in (None, ('My', 'Sup'), ('X',)):
                    base = mi < len(MODELS) and (prefix is None or (prefix == ('My', 'Sup')
                                                                     and origin == FacilitiesOrigin.CREATE))
                    if base:
                        continue
                    out.append((Case(mi, label, origin, prefix), pc))
    return out


EXTRA = extra_cases()
ALL_CASES = VALID + EXTRA
TWIN_FCS = {m.label: dg.parse(model_doc(m)) for _b, m in TWINS}
